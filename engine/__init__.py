"""Verification engine for itamarst/eliot: CrossHair/z3 driven symbolic checking.

See /verif/DESIGN.md.  Layout:

  engine.core     per-path context (choose / assume / fail / reached), isolation,
                  replay, realisation of counterexamples
  engine.worker   runs one (obligation, shard) under CrossHair in its own process
  engine.vcheck   command line: runs every obligation of a property on up to 16
                  processes, replays counterexamples natively, matches known
                  findings, writes /verif/evidence/<id>.json
  engine.sched    deterministic scheduler for real threads (choose-driven)
  engine.interp   shared program interpreter over eliot's public API
"""
