"""Per-path context, isolation and replay.

A *harness* is a plain function ``h(<typed params>) -> bool`` with the PEP316
contract ``post: _`` that does nothing but ``return run(body, mode, params)``.
CrossHair executes ``h`` symbolically; ``body(ctx, **params)`` is the actual
check.  ``body`` talks to the engine only through ``ctx``:

  ctx.choose(n, label)   a solver-drawn decision in 0..n-1 (z3 Int + fan-out in
                         CrossHair's search tree); popped from a recorded trace
                         in replay mode
  ctx.assume(cond)       precondition; path is ignored when false
  ctx.fail(msg, sig)     oracle failure (sig = known-finding signature or None)
  ctx.reached(label)     designated interesting point; the reachability twin
                         turns this into a refutation
  ctx.nontrivial(key)    counts this leaf as non-trivial for the evidence file
  ctx.sample(obj)        keeps a few rendered cases for the evidence file

The same ``body`` is run natively (no CrossHair import) by ``replay`` with the
realised parameters and the recorded decision vector.
"""

import base64
import contextvars
import json
import os
import pickle
import sys
import time as _time
import warnings

REPO = os.environ.get("VERIF_REPO", "/repo")
if REPO in sys.path:
    sys.path.remove(REPO)
sys.path.insert(0, REPO)

import eliot  # noqa: E402  (the current working tree)
from eliot import _action, _output, _errors, _message  # noqa: E402

assert os.path.realpath(eliot.__file__).startswith(os.path.realpath(REPO)), (
    eliot.__file__,
    REPO,
)


class OracleFailure(Exception):
    def __init__(self, msg, sig=None):
        Exception.__init__(self, msg)
        self.msg = msg
        self.sig = sig


class PathAbort(BaseException):
    """Raised by ctx.choose once a CrossHair control-flow exception was parked."""


class NeedChoice(BaseException):
    """Prefix enumeration: the pinned prefix is used up and choose(n) is asked."""

    def __init__(self, n):
        BaseException.__init__(self, n)
        self.n = n


class HarnessLimit(BaseException):
    """The code under test uses something the harness cannot control: the job ends as a harness
    error (inconclusive, exit code 3), never as a violation."""


class InfeasibleShard(BaseException):
    """The pinned shard prefix does not fit the decisions this path asks for."""


class STATE:
    """Process-wide settings of the current worker / replay."""

    symbolic = False  # True inside a CrossHair worker
    shard = {}
    twin = False
    known_open = frozenset()  # signatures of open known findings
    # statistics (worker side)
    paths_done = 0
    nontrivial_keys = set()
    nontrivial_paths = 0
    distinct_traces = set()
    samples = []
    known_hits = {}
    decisions = 0
    failure = None  # stash of the first failing path
    cfe_created = 0  # ControlFlowException constructions (Mode S hazard)
    reached_labels = {}


class _StubClock:
    """Stands in for the ``time`` module object eliot._action calls time() on."""

    def __init__(self):
        self.n = 0

    def time(self):
        self.n += 1
        return 1000.0 + self.n

    def __call__(self):
        return self.time()


class Ctx:
    def __init__(self, mode, replay_trace=None):
        self.mode = mode
        self.trace = []
        self.labels = []
        self.replay_trace = replay_trace
        self.parked = None
        self._nontrivial = None
        self._uuid_n = 0
        self.clock = _StubClock()
        self.notes = {}
        self.shard = STATE.shard
        self.twin = STATE.twin
        self._sample = None
        self.probing = False
        self.need = None

    # -- decisions ---------------------------------------------------------
    def choose(self, n, label=""):
        if n <= 1:
            return 0
        k = len(self.trace)
        prefix = self.shard.get("prefix") or ()
        if self.replay_trace is not None:
            if k >= len(self.replay_trace):
                if self.probing:
                    self.need = self.need or n
                    raise NeedChoice(self.need)
                raise InfeasibleShard("replay trace exhausted at %d" % k)
            v = self.replay_trace[k]
            if not (0 <= v < n):
                raise InfeasibleShard("replay value %r not in 0..%d" % (v, n - 1))
        elif k < len(prefix):
            v = prefix[k]
            if not (0 <= v < n):
                raise InfeasibleShard("prefix value %r not in 0..%d" % (v, n - 1))
        elif STATE.symbolic:
            v = self._symbolic_choose(n, k)
        else:
            raise RuntimeError("choose() outside symbolic execution and replay")
        self.trace.append(v)
        self.labels.append(label)
        return v

    def _symbolic_choose(self, n, k):
        if self.parked is not None:
            raise PathAbort()
        import z3
        from crosshair.statespace import context_statespace
        from crosshair.tracers import NoTracing

        try:
            with NoTracing():
                space = context_statespace()
                c = z3.Int("choice%d" % k)
                space.add(z3.And(c >= 0, c < n))
                v = space.smt_fanout(
                    [(c == i, i) for i in range(n)], desc="choice%d" % k
                )
            STATE.decisions += 1
            return v
        except BaseException as e:  # ControlFlowException / NotDeterministic
            self.parked = e
            raise PathAbort()

    def flag(self, label=""):
        return self.choose(2, label) == 1

    # -- oracle ------------------------------------------------------------
    def assume(self, cond):
        if not cond:
            if STATE.symbolic:
                from crosshair.util import IgnoreAttempt

                raise IgnoreAttempt("assume")
            raise InfeasibleShard("assumption failed in replay")

    def fail(self, msg, sig=None):
        raise OracleFailure(msg, sig)

    def check(self, cond, msg, *args, sig=None):
        """``msg % args`` is formatted only on failure: formatting a symbolic
        value realises it, and on a passing path that would fork per value."""
        if not cond:
            if callable(msg):
                msg = msg()
            try:
                text = msg % args if args else msg
            except Exception:
                text = "%s %r" % (msg, args)
            raise OracleFailure(text, sig)

    def reached(self, label="end"):
        STATE.reached_labels[label] = STATE.reached_labels.get(label, 0) + 1
        if self.twin and self.shard.get("twin_label", label) == label:
            raise OracleFailure("TWIN-REACHED " + label, None)

    # -- evidence ----------------------------------------------------------
    def nontrivial(self, key=True):
        self._nontrivial = key

    def sample(self, obj):
        self._sample = obj

    # -- environment stubs ---------------------------------------------------
    def uuid4(self):
        self._uuid_n += 1
        return "uuid-%d" % self._uuid_n


_CURRENT = [None]


def current_ctx():
    return _CURRENT[0]


_MEMO = [None]


def _memoised_callables():
    """Module- and class-level memoising callables of eliot (functools.lru_cache / cache): their
    caches are emptied at the start of every path, so that a path's outcome depends on that path
    alone (and replays in a fresh process)."""
    if _MEMO[0] is None:
        import sys as _sys

        found = []
        for name, mod in list(_sys.modules.items()):
            if mod is None or not (name == "eliot" or name.startswith("eliot.")):
                continue
            for v in list(vars(mod).values()):
                holders = [v]
                if isinstance(v, type) and getattr(v, "__module__", "").startswith("eliot"):
                    holders += list(vars(v).values())
                for h in holders:
                    h = getattr(h, "__func__", h)
                    if callable(getattr(h, "cache_clear", None)) and callable(getattr(h, "cache_info", None)):
                        found.append(h)
        _MEMO[0] = found
    return _MEMO[0]


class isolation:
    """Fresh eliot global state for one path (DESIGN 1.3)."""

    def __init__(self, ctx):
        self.ctx = ctx

    def __enter__(self):
        ctx = self.ctx
        # The global Destinations object is reset *in place*: eliot.add_destinations /
        # remove_destination / add_global_fields are bound methods of this very object.
        dests = _output.Logger._destinations
        self.saved_dests = (dests, dict(dests.__dict__))
        dests.__dict__.clear()
        dests.__init__()
        self.saved = (
            _output._DEFAULT_LOGGER,
            _errors._error_extraction.registry,
            _action.time,
            getattr(_action, "uuid4", None),
            _message.Message._time,
            warnings.filters[:],
        )
        _output._DEFAULT_LOGGER = _output.Logger()
        _errors._error_extraction.registry = dict(_errors._error_extraction.registry)
        _action.time = ctx.clock
        if not getattr(ctx, "shard", {}).get("real_uuid"):
            # (with shard option real_uuid the code under test draws its task ids itself)
            _action.uuid4 = ctx.uuid4
        _message.Message._time = ctx.clock
        warnings.simplefilter("ignore")
        for f in _memoised_callables():
            f.cache_clear()
        return ctx

    def __exit__(self, *a):
        dests, d = self.saved_dests
        _output.Logger._destinations = dests
        dests.__dict__.clear()
        dests.__dict__.update(d)
        (
            _output._DEFAULT_LOGGER,
            _errors._error_extraction.registry,
            _action.time,
            _action.uuid4,
            _message.Message._time,
            filters,
        ) = self.saved
        warnings.filters[:] = filters
        return False


def _run_isolated(body, ctx, params):
    def inner():
        with isolation(ctx):
            return body(ctx, **params)

    return contextvars.Context().run(inner)


def _pack(params):
    return base64.b64encode(pickle.dumps(params, protocol=4)).decode("ascii")


def _unpack(s):
    return pickle.loads(base64.b64decode(s))


def _require_concrete(v):
    from crosshair.util import CrossHairValue

    def walk(x):
        if isinstance(x, CrossHairValue):
            raise RuntimeError("harness bug: symbolic value %s passed to nontrivial()/sample()" % type(x).__name__)
        if isinstance(x, (list, tuple, set, frozenset)):
            for y in x:
                walk(y)
        elif isinstance(x, dict):
            for a, b in x.items():
                walk(a)
                walk(b)

    walk(v)
    return v


def clen(seq):
    """Length of a (possibly symbolic) sequence as a concrete int: iterating
    forks on the length, after which it is fixed on this path."""
    n = 0
    for _ in seq:
        n += 1
    return n


def run(body, mode, params):
    """Entry point used by harness functions while CrossHair analyses them."""
    assert STATE.symbolic, "run() is only for symbolic execution; use replay()"
    from crosshair.tracers import NoTracing, ResumedTracing, is_tracing
    from crosshair.util import ControlFlowException, UnexploredPath, NotDeterministic

    ctx = Ctx(mode)
    _CURRENT[0] = ctx
    created0 = STATE.cfe_created
    failure = None
    try:
        try:
            if mode == "X":
                with NoTracing():
                    _run_isolated(body, ctx, params)
            else:
                _run_isolated(body, ctx, params)
        except OracleFailure as f:
            failure = f
        except PathAbort:
            pass
        except InfeasibleShard:
            from crosshair.util import IgnoreAttempt

            raise IgnoreAttempt("infeasible shard")
        except (ControlFlowException, NotDeterministic, HarnessLimit):
            raise
        except BaseException as e:
            import traceback

            failure = OracleFailure(
                "unexpected %s escaped the harness body: %r\n%s"
                % (type(e).__name__, e, traceback.format_exc()[-1500:]),
                None,
            )
        if ctx.parked is not None:
            raise ctx.parked
        if STATE.cfe_created != created0:
            # A CrossHair path abort was constructed but swallowed (eliot has bare
            # ``except:`` clauses): this path's outcome means nothing.
            raise UnexploredPath("swallowed control-flow exception")
    finally:
        _CURRENT[0] = None

    if failure is not None and failure.sig is not None and (failure.sig in STATE.known_open or os.environ.get("VERIF_COLLECT_SIGS")):
        STATE.known_hits[failure.sig] = STATE.known_hits.get(failure.sig, 0) + 1
        if failure.sig + "#example" not in STATE.known_hits:
            with NoTracing():
                from crosshair.core import deep_realize

                STATE.known_hits[failure.sig + "#example"] = {
                    "params": _pack(deep_realize(params)),
                    "trace": list(ctx.trace),
                    "msg": failure.msg[:500],
                }
        failure = None

    if failure is not None:
        if STATE.failure is None or STATE.failure.get("twin"):
            from crosshair.core import deep_realize

            with NoTracing():
                realized = deep_realize(params)
            STATE.failure = {
                "params": _pack(realized),
                "params_repr": repr(realized)[:2000],
                "trace": list(ctx.trace),
                "labels": list(ctx.labels),
                "msg": failure.msg[:4000],
                "sig": failure.sig,
                "twin": failure.msg.startswith("TWIN-REACHED"),
            }
        return False

    STATE.paths_done += 1
    # NB: nothing symbolic may be realised on a passing path - every realised
    # value would become a branch of the search tree and it could never be
    # exhausted.  Harnesses pass only path-concrete values to nontrivial()/sample().
    if mode == "S":
        with NoTracing():
            ctx._nontrivial = _require_concrete(ctx._nontrivial)
            ctx._sample = _require_concrete(ctx._sample)
    if ctx._nontrivial is not None:
        STATE.nontrivial_paths += 1
        STATE.nontrivial_keys.add(ctx._nontrivial)
    STATE.distinct_traces.add(tuple(ctx.trace))
    if ctx._sample is not None and len(STATE.samples) < 6:
        try:
            json.dumps(ctx._sample)
            STATE.samples.append(ctx._sample)
        except Exception:
            STATE.samples.append(repr(ctx._sample)[:500])
    return True


def replay(body, mode, params, trace, shard=None, twin=False):
    """Native re-execution of one path.  Returns (failed: bool, message, sig)."""
    STATE.symbolic = False
    STATE.shard = dict(shard or {})
    STATE.shard.pop("prefix", None)
    STATE.twin = twin
    ctx = Ctx(mode, replay_trace=list(trace))
    _CURRENT[0] = ctx
    try:
        _run_isolated(body, ctx, params)
    except OracleFailure as f:
        return True, f.msg, f.sig
    except InfeasibleShard as e:
        return False, "replay infeasible: %s" % e, None
    except BaseException as e:
        import traceback

        return (
            True,
            "unexpected %s escaped the harness body: %r\n%s"
            % (type(e).__name__, e, traceback.format_exc()[-1500:]),
            None,
        )
    finally:
        _CURRENT[0] = None
    return False, "ok", None


def enumerate_prefixes(body, mode, params, shard, depth):
    """All decision-vector prefixes of length <= depth that ``body`` can take
    (complete paths shorter than ``depth`` included), found by native probing.
    Used to split one exploration into shards with pinned prefixes."""
    STATE.symbolic = False
    STATE.shard = dict(shard or {})
    STATE.twin = False
    out, work = [], [[]]
    while work:
        p = work.pop()
        if len(p) >= depth:
            out.append(p)
            continue
        ctx = Ctx(mode, replay_trace=list(p))
        ctx.probing = True
        _CURRENT[0] = ctx
        try:
            _run_isolated(body, ctx, dict(params))
        except NeedChoice:
            pass
        except InfeasibleShard:
            continue
        except OracleFailure:
            pass  # the worker that owns this prefix will report it
        except BaseException:
            pass  # likewise: the code under test blew up on this prefix; the owning worker reports and replays it
        finally:
            _CURRENT[0] = None
        if ctx.need:
            work.extend(p + [i] for i in range(ctx.need))
        else:
            out.append(p)
    out.sort()
    return out
