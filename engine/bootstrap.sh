#!/bin/sh
# Idempotent, offline: overlay venv of /venv with crosshair-tool + z3-solver from the wheelhouse.
set -e
V="$(cd "$(dirname "$0")/.." && pwd)"
if [ -x "$V/.venv/bin/python" ] && "$V/.venv/bin/python" -c "import crosshair, z3" 2>/dev/null; then
    exit 0
fi
(
    flock 9
    if [ -x "$V/.venv/bin/python" ] && "$V/.venv/bin/python" -c "import crosshair, z3" 2>/dev/null; then
        exit 0
    fi
    rm -rf "$V/.venv"
    /venv/bin/python -m venv "$V/.venv"
    SP="$("$V/.venv/bin/python" -c 'import sysconfig; print(sysconfig.get_paths()["purelib"])')"
    echo "import site; site.addsitedir('/venv/lib/python3.12/site-packages')" > "$SP/_verif_overlay.pth"
    PIP_NO_INDEX=1 "$V/.venv/bin/pip" install -q --no-index --find-links /opt/veriftools/wheels crosshair-tool z3-solver
    "$V/.venv/bin/python" -c "import crosshair, z3, eliot"
) 9>"$V/.venv.lock"
