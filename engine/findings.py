"""Known findings (committed file, never written at run time)."""

import json
import os

PATH = os.path.join(os.path.dirname(os.path.dirname(os.path.abspath(__file__))), "known_findings.json")


def load():
    if not os.path.exists(PATH):
        return []
    with open(PATH) as f:
        return json.load(f)["findings"]


def open_signatures(prop):
    return [e["signature"] for e in load() if e["property"] == prop and e["status"] == "open"]


def open_entries(prop):
    return [e for e in load() if e["property"] == prop and e["status"] == "open"]


def fixed_entries(prop):
    return [e for e in load() if e["property"] == prop and e["status"] == "fixed"]
