"""Command line of the checks registered in MANIFEST.json.

  bin/vcheck C02 --tier quick            run every obligation of C02
  bin/vcheck C02 --only L1               just one obligation (development)
  bin/vcheck --replay replays/x.json     native replay of a counterexample

Exit codes: 0 = no violation (inconclusive obligations are listed, never
counted as discharged); 1 = at least one reproduced violation that is not a
listed known finding (a ``VIOLATION property=.. replay=..`` line is printed for
each); 3 = harness error (worker crash, counterexample that does not reproduce
natively - the encoding or a stub is wrong).
"""

import argparse
import concurrent.futures
import hashlib
import importlib
import json
import os
import subprocess
import sys
import tempfile
import time

VERIF = os.path.dirname(os.path.dirname(os.path.abspath(__file__)))
PY = os.path.join(VERIF, ".venv", "bin", "python")
NPROC = int(os.environ.get("VERIF_NPROC", "16"))


def _env():
    env = dict(os.environ)
    env["PYTHONHASHSEED"] = "0"
    env["PYTHONPATH"] = VERIF
    env["PYTHONDONTWRITEBYTECODE"] = "1"
    return env


def run_job(job):
    modname, obname, shard, twin, tier, hard_timeout = job
    fd, out = tempfile.mkstemp(prefix="vjob-", suffix=".json", dir=SCRATCH)
    os.close(fd)
    cmd = [PY, "-m", "engine.worker", modname, obname, json.dumps(shard), "1" if twin else "0", tier, out]
    t0 = time.time()
    try:
        for attempt in range(3):
            p = subprocess.run(cmd, env=_env(), cwd=VERIF, capture_output=True, text=True, timeout=hard_timeout)
            if p.returncode >= 0 or os.path.getsize(out) > 0:
                break
            # the worker process was killed by a signal (e.g. a crash inside a C extension):
            # an infrastructure failure, not a verdict - run the job again
        try:
            with open(out) as f:
                res = json.load(f)
            if attempt:
                res["retries_after_worker_crash"] = attempt
        except Exception:
            res = {
                "status": "error",
                "error": "worker produced no result (rc=%s)\n%s" % (p.returncode, (p.stderr or "")[-2000:]),
            }
        res["stdout_tail"] = (p.stdout or "")[-1500:]
        if res.get("status") == "error" and "error" not in res:
            res["error"] = (p.stderr or "")[-2000:]
    except subprocess.TimeoutExpired:
        res = {"status": "unknown", "note": "hard timeout %ss" % hard_timeout}
    finally:
        try:
            os.unlink(out)
        except OSError:
            pass
    res.setdefault("ob", obname)
    res.setdefault("shard", shard)
    res["twin"] = twin
    res["job_wall_s"] = round(time.time() - t0, 2)
    return res


def write_replay(prop, modname, ob, res):
    f = res["failure"]
    doc = {
        "property": prop,
        "module": modname,
        "ob": ob.name,
        "mode": ob.mode,
        "shard": res.get("shard") or {},
        "params": f["params"],
        "params_repr": f.get("params_repr", ""),
        "trace": f["trace"],
        "labels": f.get("labels", []),
        "msg": f["msg"],
        "sig": f.get("sig"),
    }
    h = hashlib.sha1(json.dumps([doc["ob"], doc["shard"], doc["params"], doc["trace"]], sort_keys=True).encode()).hexdigest()[:10]
    os.makedirs(os.path.join(VERIF, "replays"), exist_ok=True)
    path = os.path.join(VERIF, "replays", "%s-%s-%s.json" % (prop, ob.name, h))
    with open(path, "w") as fh:
        json.dump(doc, fh, indent=1)
    return path


def native_replay(path):
    """Replays in a fresh interpreter without CrossHair. -> (reproduced, output)"""
    p = subprocess.run([PY, "-m", "engine.replay", path], env=_env(), cwd=VERIF, capture_output=True, text=True, timeout=600)
    return p.returncode == 1, (p.stdout + p.stderr)[-3000:]


def main():
    ap = argparse.ArgumentParser()
    ap.add_argument("prop", nargs="?")
    ap.add_argument("--tier", default=os.environ.get("VERIF_TIER", "quick"))
    ap.add_argument("--only", action="append")
    ap.add_argument("--replay")
    ap.add_argument("--no-evidence", action="store_true")
    ap.add_argument("--verbose", "-v", action="store_true")
    args = ap.parse_args()

    if args.replay:
        rc = subprocess.run([PY, "-m", "engine.replay", args.replay], env=_env(), cwd=VERIF).returncode
        return rc

    global SCRATCH
    # job files live under /verif/.scratch (git-ignored, removed after the run), not under /tmp:
    # a run must not depend on anything in /tmp surviving while it works
    scratch_root = os.path.join(VERIF, ".scratch")
    os.makedirs(scratch_root, exist_ok=True)
    SCRATCH = tempfile.mkdtemp(prefix="vcheck-", dir=scratch_root)
    try:
        return _check(args)
    finally:
        import shutil

        shutil.rmtree(SCRATCH, ignore_errors=True)


def _check(args):
    prop = args.prop
    tier = args.tier
    t0 = time.time()
    seed = int(os.environ.get("VERIF_SEED", "0") or 0)
    modname = "props.%s" % prop.lower()
    sys.path.insert(0, VERIF)
    from engine import findings

    mod = importlib.import_module(modname)
    obs = [o for o in mod.OBLIGATIONS if tier in o.tiers and (not args.only or o.name in args.only)]

    jobs = []
    for ob in obs:
        to = float(os.environ.get("VERIF_OB_TIMEOUT", 0) or ob.timeout.get(tier, 60))
        hard = to * 1.5 + 90
        for shard in ob.shard_list(tier):
            jobs.append((modname, ob.name, shard, False, tier, hard))
        if ob.smt is None:
            for shard in ob.twin_list(tier):
                jobs.append((modname, ob.name, shard, True, tier, min(hard, 270)))
    # longest first
    order = sorted(range(len(jobs)), key=lambda i: -jobs[i][5])
    results = [None] * len(jobs)
    with concurrent.futures.ThreadPoolExecutor(NPROC) as ex:
        futs = {ex.submit(run_job, jobs[i]): i for i in order}
        for fut in concurrent.futures.as_completed(futs):
            i = futs[fut]
            results[i] = fut.result()
            if args.verbose:
                r = results[i]
                print("  [%s%s %s] %s paths=%s %.1fs %s" % (r.get("ob"), "/twin" if r.get("twin") else "", json.dumps(r.get("shard")), r.get("status"), r.get("num_paths"), r.get("job_wall_s", 0), (r.get("note") or r.get("error") or "")[:300]), flush=True)

    by_ob = {o.name: o for o in obs}
    violations = []
    harness_errors = []
    inconclusive = []
    known_hits = {}
    ob_summary = {}
    for ob in obs:
        ob_summary[ob.name] = {
            "mode": ob.mode if ob.smt is None else "SMT",
            "desc": ob.desc,
            "functions": list(ob.functions),
            "bounds": ob.bounds.get(tier) or ob.bounds.get("quick", ""),
            "shards": 0,
            "shards_confirmed": 0,
            "paths": 0,
            "paths_done": 0,
            "nontrivial_paths": 0,
            "decisions": 0,
            "solver_cpu_s": 0.0,
            "twin": "n/a" if ob.smt is not None else "missing",
            "status": "discharged",
        }

    samples = []
    nontrivial_keys = set()
    distinct_total = 0
    for job, res in zip(jobs, results):
        ob = by_ob[job[1]]
        S = ob_summary[ob.name]
        st = res.get("status")
        if res.get("twin"):
            f = res.get("failure") or {}
            if st == "refuted" and f.get("twin"):
                if S["twin"] in ("missing", "refuted (reachable)"):
                    S["twin"] = "refuted (reachable)"
            elif st == "refuted":
                # a genuine failure met while running the twin; the main job reports it
                if S["twin"] == "missing":
                    S["twin"] = "refuted (reachable)"
            else:
                S["twin"] = "NOT refuted: %s %s" % (st, (res.get("note") or res.get("error") or "")[:200])
            continue
        S["shards"] += 1
        S["paths"] += int(res.get("num_paths") or 0)
        S["paths_done"] += int(res.get("paths_done") or 0)
        S["nontrivial_paths"] += int(res.get("nontrivial_paths") or 0)
        S["decisions"] += int(res.get("decisions") or 0)
        S["solver_cpu_s"] += float(res.get("solver_cpu_s") or 0)
        if ob.smt is not None:
            S.setdefault("smt", []).append({k: res.get(k) for k in ("queries", "solver_results", "validated_points", "encoded_source_sha") if k in res})
        for k, v in (res.get("known_hits") or {}).items():
            if k.endswith("#example"):
                known_hits.setdefault(k[:-8], {}).setdefault("example", (ob, res, v))
            else:
                known_hits.setdefault(k, {}).setdefault("count", 0)
                known_hits[k]["count"] += v
        for s in res.get("samples") or []:
            if len(samples) < 8:
                samples.append({"obligation": ob.name, "case": s})
        for k in res.get("nontrivial_keys") or []:
            nontrivial_keys.add((ob.name, k))
        if ob.mode == "X":
            distinct_total += int(res.get("distinct_traces") or 0)
        else:
            distinct_total += int(res.get("paths_done") or 0)
        if st == "confirmed":
            S["shards_confirmed"] += 1
        elif st == "refuted":
            path = write_replay(prop, modname, ob, res)
            ok, outp = native_replay(path)
            if ok:
                violations.append((ob.name, path, res["failure"]["msg"]))
                S["status"] = "VIOLATED"
            else:
                harness_errors.append("%s: counterexample %s did not reproduce natively: %s" % (ob.name, path, outp[-600:]))
                if S["status"] == "discharged":
                    S["status"] = "inconclusive (non-reproducing counterexample)"
        elif st == "unknown":
            inconclusive.append("%s shard %s: %s" % (ob.name, json.dumps(res.get("shard")), (res.get("note") or "; ".join(m[1] for m in res.get("messages", [])) or "timeout")[:300]))
            if S["status"] == "discharged":
                S["status"] = "inconclusive"
        else:
            harness_errors.append("%s shard %s: %s" % (ob.name, json.dumps(res.get("shard")), (res.get("error") or res.get("note") or "?")[-1500:]))
            if S["status"] == "discharged":
                S["status"] = "error"

    for name, S in ob_summary.items():
        if S["status"] == "discharged" and S["twin"] not in ("refuted (reachable)", "n/a"):
            S["status"] = "not discharged (reachability twin: %s)" % S["twin"]
            inconclusive.append("%s: twin %s" % (name, S["twin"]))
        S["solver_cpu_s"] = round(S["solver_cpu_s"], 2)

    # known findings: re-confirm by native replay, then print
    kf_lines = []
    for entry in findings.open_entries(prop):
        hit = known_hits.get(entry["signature"])
        if hit and "example" in hit:
            ob, res, ex = hit["example"]
            fake = dict(res)
            fake["failure"] = {"params": ex["params"], "trace": ex["trace"], "msg": ex["msg"], "sig": entry["signature"]}
            path = write_replay(prop, modname, ob, fake)
            ok, _ = native_replay(path)
            if ok:
                kf_lines.append("KNOWN-FINDING: property=%s %s [signature=%s, %d failing paths this run, replay=%s]" % (prop, entry["what"], entry["signature"], hit.get("count", 0), path))
            else:
                harness_errors.append("known finding %s did not reproduce natively" % entry["signature"])
        else:
            print("note: known finding %s (%s) was not observed in this run" % (entry["signature"], entry["what"]))

    n_ob = len(ob_summary)
    n_dis = sum(1 for S in ob_summary.values() if S["status"] == "discharged")
    wall = time.time() - t0
    total_paths = sum(S["paths"] for S in ob_summary.values())

    for line in kf_lines:
        print(line)
    for name, path, msg in violations:
        print("VIOLATION property=%s replay=%s" % (prop, path))
        print("  obligation %s: %s" % (name, msg.splitlines()[0][:400] if msg else ""))
    for s in inconclusive:
        print("INCONCLUSIVE %s" % s)
    for s in harness_errors:
        print("HARNESS-ERROR %s" % s)
    print("%s tier=%s obligations=%d discharged=%d paths=%d wall=%.1fs" % (prop, tier, n_ob, n_dis, total_paths, wall))
    for name, S in ob_summary.items():
        print("  %-4s %-1s %-28s shards %d/%d paths %d (nontrivial %d) twin=%s" % (name, S["mode"], S["status"], S["shards_confirmed"], S["shards"], S["paths"], S["nontrivial_paths"], S["twin"]))

    if not args.no_evidence and not args.only:
        ev = {
            "property_id": prop,
            "tier": tier,
            "seed": seed,
            "level": "model_checking",
            "coverage": {
                "evaluations": max(total_paths, 0),
                "distinct_nontrivial": len(nontrivial_keys),
                "rule": getattr(mod, "NONTRIVIAL_RULE", "")
                + " evaluations = solver-explored paths (concrete executions of the real eliot code, one per leaf of CrossHair's decision tree, twins excluded); distinct_nontrivial = number of distinct (obligation, leaf key) pairs the harnesses marked non-trivial, keys being the decision vector or the leaf class as stated above.",
                "samples": samples or [{"note": "no samples recorded"}],
                "exhaustive": n_dis == n_ob,
                "obligations": n_ob,
                "discharged": n_dis,
                "checker_cmd": "bin/vcheck %s --tier %s" % (prop, tier),
                "trusted_base": ["CPython 3.12", "crosshair-tool 0.0.110", "z3 4.15/5.1 (z3-solver wheel)", "harness oracles in /verif/props/%s.py" % prop.lower()],
                "explanation": getattr(mod, "EXPLANATION", ""),
                "per_obligation": ob_summary,
                "inconclusive": inconclusive,
                "harness_errors": harness_errors,
                "known_findings_observed": [l for l in kf_lines],
                "distinct_paths": distinct_total,
                "solver_decisions": sum(S["decisions"] for S in ob_summary.values()),
                "solver_cpu_s": round(sum(S["solver_cpu_s"] for S in ob_summary.values()), 2),
            },
            "assumptions": sorted(set(a for o in obs for a in o.assumptions) | set(getattr(mod, "ASSUMPTIONS", ()))),
            "wall_s": round(wall, 2),
            "violations": len(violations),
        }
        os.makedirs(os.path.join(VERIF, "evidence"), exist_ok=True)
        with open(os.path.join(VERIF, "evidence", "%s.json" % prop), "w") as f:
            json.dump(ev, f, indent=1, sort_keys=True)

    if violations:
        return 1
    if harness_errors:
        return 3
    return 0


if __name__ == "__main__":
    sys.exit(main())
