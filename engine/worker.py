"""Run one (property module, obligation, shard) under CrossHair; print a JSON verdict.

usage: python -m engine.worker <module> <obligation> <shard-json> <twin 0|1> <tier> <out.json>
"""

import collections
import importlib
import json
import os
import random
import sys
import time
import traceback


def _install_crosshair_adjustments(seed):
    import crosshair.core as core
    import crosshair.statespace as statespace
    import crosshair.util as util
    from engine.core import STATE

    # (1) never take *optional* short-circuits (DESIGN 1.2)
    orig = core.consider_shortcircuit

    def consider_shortcircuit(fn, sig, bound, subconditions, allow_interpretation):
        if allow_interpretation:
            return None
        return orig(fn, sig, bound, subconditions, allow_interpretation)

    core.consider_shortcircuit = consider_shortcircuit

    # (2) search seed
    base = 1801243388510242075

    def newrandom():
        return random.Random(base ^ (seed * 2654435761 & 0xFFFFFFFFFFFF))

    statespace.newrandom = newrandom

    # (3) record every construction of a path-steering exception (DESIGN 1.4)
    def counting_new(cls, *a, **kw):
        STATE.cfe_created += 1
        return BaseException.__new__(cls, *a, **kw)

    util.ControlFlowException.__new__ = counting_new

    def counting_new_nd(cls, *a, **kw):
        STATE.cfe_created += 1
        return Exception.__new__(cls, *a, **kw)

    util.NotDeterministic.__new__ = counting_new_nd


def main(argv):
    modname, obname, shard_json, twin, tier, out = argv
    t0 = time.time()
    seed = int(os.environ.get("VERIF_SEED", "0") or 0)
    result = {
        "module": modname,
        "ob": obname,
        "shard": json.loads(shard_json),
        "twin": twin == "1",
        "tier": tier,
        "status": "error",
    }
    try:
        from engine import core as ecore
        from engine.core import STATE
        from engine import findings

        mod = importlib.import_module(modname)
        ob = next(o for o in mod.OBLIGATIONS if o.name == obname)
        timeout = float(os.environ.get("VERIF_OB_TIMEOUT", 0) or ob.timeout.get(tier, 60))
        if twin == "1":
            timeout = min(timeout, 120.0)

        if ob.smt is not None:
            r = ob.smt(tier)
            result.update(r)
            result["wall_s"] = round(time.time() - t0, 3)
            _write(out, result)
            return 0

        _install_crosshair_adjustments(seed)
        STATE.symbolic = True
        STATE.shard = result["shard"]
        STATE.twin = twin == "1"
        STATE.known_open = frozenset(findings.open_signatures(mod.PROPERTY))

        import crosshair.core_and_libs  # noqa: F401 (registers library models and opcode patches)
        from crosshair.core import analyze_function, run_checkables
        from crosshair.options import AnalysisOptionSet
        from crosshair.statespace import MessageType

        stats = collections.Counter()
        opts = AnalysisOptionSet(
            per_condition_timeout=timeout,
            per_path_timeout=ob.path_timeout,
            max_uninteresting_iterations=sys.maxsize,
            max_iterations=sys.maxsize,
            stats=stats,
        )
        checkables = analyze_function(ob.fn, opts)
        if not checkables:
            raise RuntimeError("no checkable conditions on %s" % ob.fn)
        c0 = time.process_time()
        msgs = run_checkables(checkables)
        cpu = time.process_time() - c0
        states = [m.state for m in msgs]
        if any(s in (MessageType.POST_FAIL, MessageType.EXEC_ERR, MessageType.POST_ERR) for s in states):
            status = "refuted"
        elif states and all(s == MessageType.CONFIRMED for s in states):
            status = "confirmed"
        elif any(s == MessageType.PRE_UNSAT for s in states):
            status = "unknown"
            result["note"] = "unable to meet precondition / all paths ignored"
        elif any(s in (MessageType.SYNTAX_ERR, MessageType.IMPORT_ERR) for s in states):
            status = "error"
        else:
            status = "unknown"
        if status == "refuted" and STATE.failure is None:
            # CrossHair refuted on something that did not go through run()
            result["note"] = "refuted outside run(): " + "; ".join(m.message[:300] for m in msgs)
            status = "error"
        if status == "confirmed" and STATE.paths_done == 0:
            status = "unknown"
            result["note"] = "vacuous: no path reached the end of the body"
        result.update(
            status=status,
            messages=[(m.state.name, m.message[:300]) for m in msgs],
            num_paths=int(stats.get("num_paths", 0)),
            paths_done=STATE.paths_done,
            nontrivial_paths=STATE.nontrivial_paths,
            nontrivial_keys=sorted(map(repr, STATE.nontrivial_keys))[:2000],
            distinct_traces=len(STATE.distinct_traces),
            decisions=STATE.decisions,
            samples=STATE.samples,
            known_hits={k: v for k, v in STATE.known_hits.items()},
            failure=STATE.failure,
            reached=STATE.reached_labels,
            solver_cpu_s=round(cpu, 3),
            timeout=timeout,
        )
    except BaseException as e:
        result["status"] = "error"
        result["error"] = "%s: %s\n%s" % (type(e).__name__, e, traceback.format_exc()[-3000:])
    result["wall_s"] = round(time.time() - t0, 3)
    _write(out, result)
    return 0


def _write(out, result):
    with open(out, "w") as f:
        json.dump(result, f)


if __name__ == "__main__":
    sys.exit(main(sys.argv[1:]))
