"""Program interpreter over eliot's public API (DESIGN 1.7).

Executes real ``with`` statements around real eliot calls, drawing every next
step with ``ctx.choose`` and recording a *reference forest* (what the program
did, in program order) without ever looking at task levels.  Property harnesses
compare what eliot emitted / the parser rebuilt with that reference.

Shape ops (chosen per step):   CLOSE | MSG | OPEN | HANDOFF | RAISE(j)
Style profile (per shard, or chosen per step when shard["free"] is set):
  open  0 with start_action   1 start_action + context() + finish
        2 start_action + run(f) + finish      3 @log_call function
        4 typed ActionType    5 start_task (new tree)
        6 start_action + context() with finish()/finish(exc) called inside that context
  msg   0 log_message  1 action.log  2 typed MessageType.log
        3 deprecated Message.log     4 write_traceback     5 Message.new().bind().write(action=)
  exc   index into EXC_MENU
  fin   0 none  1 finish() again after the block  2 finish(exc) again
"""

import asyncio
import json

import eliot
from eliot import (
    start_action,
    start_task,
    log_message,
    current_action,
    write_traceback,
    Message,
    MessageType,
    ActionType,
    Field,
    Action,
    log_call,
    register_exception_extractor,
)

FALLBACK_REASON = "eliot: unknown, str() raised exception"

# corner values, all JSON-native (C10 owns the codec corners)
VALUE_MENU = [
    1,
    "téxt \U0001f600 \"q\" \\ \n\t",
    [1, [2, {"k": None}], "s"],
    {"a": {"b": [True, False, None]}, "": 0},
    2 ** 63 - 1,
    -0.0,
    None,
    True,
    1.5e300,
    "",
    -(2 ** 63),
    [],
]


class BadStr(Exception):
    def __str__(self):
        raise RuntimeError("str() of this exception raises")


class Abort(BaseException):
    """Not an Exception subclass (like KeyboardInterrupt / CancelledError)."""


class BadStrBase(Exception):
    """An exception whose text cannot be computed at all: str() raises a non-Exception."""

    def __str__(self):
        raise Abort("str() of this exception raises a BaseException")


class AppBase(Exception):
    """A user exception class with a registered extractor."""

    def __init__(self, code):
        Exception.__init__(self, "app error %s" % code)
        self.code = code


class AppMid(AppBase):
    pass


class AppLeaf(AppMid):
    pass


class AppSide(AppBase):
    pass


class AppDiamond(AppMid, AppSide):
    """Multiple inheritance: the MRO is AppDiamond, AppMid, AppSide, AppBase - a depth-first walk
    over __bases__ would reach AppBase before AppSide."""


class FalsyError(Exception):
    """An exception whose truth value is False (e.g. an aggregate with no sub-errors)."""

    def __len__(self):
        return 0


def _mk_exc(i, n):
    if i == 0:
        return ValueError("v-%d" % n)
    if i == 1:
        return FileNotFoundError(2, "nf-%d" % n)
    if i == 2:
        return BadStr()
    if i == 3:
        return KeyboardInterrupt()
    if i == 4:
        return GeneratorExit()
    if i == 5:
        return asyncio.CancelledError()
    if i == 6:
        return SystemExit(3)
    if i == 7:
        return AppLeaf(n)
    if i == 8:
        return FalsyError("falsy-%d" % n)
    if i == 9:
        return BadStrBase()
    if i == 10:
        return AppDiamond(n)
    raise IndexError(i)


N_EXC = 11
N_OPEN = 7
N_MSG = 6
N_FIN = 3


def exc_name(e):
    return "%s.%s" % (type(e).__module__, type(e).__name__)


def exc_reason(e):
    try:
        return str(e)
    except BaseException:
        return FALLBACK_REASON


class ExtractorBoom(Exception):
    pass


def _x_leaf(e):
    return {"code": e.code, "who": "leaf"}


def _x_mid(e):
    return {"who": "mid"}


def _x_base(e):
    return {"code": e.code, "kind": "app"}


def _x_base_colliding(e):
    # an extractor that happens to use the names of the built-in failure fields
    return {"code": e.code, "kind": "app", "reason": "extractor's reason", "exception": "extractor.Name", "action_status": "extractor-status"}


def _x_raise(e):
    raise ExtractorBoom("extractor failed")


def _x_side(e):
    return {"code": e.code, "who": "side"}


_X_FUNCS = {AppLeaf: _x_leaf, AppMid: _x_mid, AppBase: _x_base, AppSide: _x_side}


def extractor_config(index):
    """index in 0..26 -> {class: "dict"|"raise"} for (AppLeaf, AppMid, AppBase);
    the default (index 2) registers only AppBase, returning a dict."""
    cfg = {}
    digits = [(index // 9) % 3, (index // 3) % 3, index % 3]
    for cls, d in zip((AppLeaf, AppMid, AppBase), digits):
        if d == 2:
            cfg[cls] = "dict"
        elif d == 1:
            cfg[cls] = "raise"
    return cfg


def _ser(v):
    return ["ser", v]


TYPED_ACTION = ActionType(
    "t:typed",
    [Field("x", _ser, "start value")],
    [Field("r", _ser, "result value")],
    "typed action used by the interpreter",
)
TYPED_MESSAGE = MessageType("t:typedmsg", [Field("x", _ser, "value")], "typed message")


@log_call(action_type="t:logcall", include_args=["x"])
def _lc_fn(x, thunk):
    return thunk()


class RefMessage(object):
    kind = "message"

    def __init__(self, mtype, fields, traceback_of=None):
        self.type = mtype
        self.fields = fields
        self.traceback_of = traceback_of

    def render(self):
        return "M(%s)" % self.type


class RefAction(object):
    kind = "action"

    def __init__(self, atype, start_fields, style, new_tree=False, remote=False):
        self.type = atype
        self.start_fields = start_fields
        self.style = style
        self.children = []
        self.status = None  # "succeeded" | "failed"
        self.end_fields = None
        self.exc = None
        self.new_tree = new_tree
        self.remote = remote
        self.side = 0

    def render(self):
        inner = " ".join(c.render() for c in self.children)
        st = {None: "?", "succeeded": "ok", "failed": "FAIL"}[self.status]
        if self.status == "failed":
            st += ":" + type(self.exc).__name__
        return "A%d[%s%s](%s)%s" % (self.style, self.type, "@remote" if self.remote else "", inner, st)


class Interp(object):
    """One program execution.  Subclass and override the on_* hooks."""

    check_context = True

    def __init__(self, ctx, max_ops, max_depth, allow_handoff=False, allow_raise=True, allow_msg=True, allow_newtask=True):
        self.ctx = ctx
        self.shard = ctx.shard
        self.budget = max_ops
        self.max_depth = max_depth
        self.allow_handoff = allow_handoff
        self.allow_raise = allow_raise
        self.allow_msg = allow_msg
        self.forest = []  # roots in program order: RefAction / RefMessage
        self.stack = []  # RefAction stack of the *current context*
        self.astack = []  # matching eliot Action objects
        self.n = 0  # running counter for values / exception payloads
        self.in_flight = None
        self.side = 0
        self.n_actions = 0
        self.n_failed = 0
        self.n_msgs = 0
        self.n_handoffs = 0
        self.ops = []  # rendered op sequence
        self.xcfg = extractor_config(int(self.shard.get("ext", 2)))
        if self.shard.get("diamond"):
            # an extractor (1: returning fields, 2: raising) on the second base of AppDiamond
            self.xcfg[AppSide] = "dict" if int(self.shard["diamond"]) == 1 else "raise"
        self.xfuncs = dict(_X_FUNCS)
        if self.shard.get("xcollide"):
            self.xfuncs[AppBase] = _x_base_colliding
        for cls, how in self.xcfg.items():
            register_exception_extractor(cls, self.xfuncs[cls] if how == "dict" else _x_raise)

    def exc_extra(self, e):
        """(fields of the extractor registered for the nearest class in the MRO,
        whether that extractor raises)."""
        for klass in type(e).__mro__:
            if klass in self.xcfg:
                if self.xcfg[klass] == "raise":
                    return {}, True
                # the built-in failure fields always win over same-named extractor fields
                return {k: v for k, v in _X_FUNCS[klass](e).items() if k not in ("reason", "exception", "action_status")}, False
            if klass is OSError:
                return {"errno": e.errno}, False
        return {}, False

    def _extractor_traceback_ref(self):
        boom = ExtractorBoom("extractor failed")
        return RefMessage("eliot:traceback", {"reason": "extractor failed", "exception": exc_name(boom)}, traceback_of=boom)

    # -- hooks ---------------------------------------------------------------
    def on_enter(self, ref, action):
        pass

    def on_exit(self, ref, action):
        pass

    def on_logged(self, ref):
        pass

    # -- helpers -------------------------------------------------------------
    def action_type(self, st):
        k = int(self.shard.get("types", 1))
        if k > 1:
            return "t:type%d" % self.ctx.choose(k, "action type")
        if self.shard.get("empty_type") and st in (0, 1, 2):
            return ""  # start_action()'s default action type
        return "t:act%d" % st

    def value(self):
        self.n += 1
        return VALUE_MENU[(self.n * 5 + 2) % len(VALUE_MENU)]

    def style(self, dim, n):
        menu = self.shard.get(dim + "_menu")
        if menu:
            return int(menu[self.ctx.choose(len(menu), dim)])
        if self.shard.get("free"):
            return self.ctx.choose(n, dim)
        return int(self.shard.get(dim, 0))

    def _attach(self, node):
        if self.stack and not getattr(node, "new_tree", False):
            self.stack[-1].children.append(node)
        else:
            self.forest.append(node)

    def _expect_current(self, what):
        if not self.check_context:
            return
        exp = self.astack[-1] if self.astack else None
        got = current_action()
        self.ctx.check(got is exp, "current_action() %s is %r, expected %r (program %s)", what, got, exp, self.render(), sig=None)

    # -- program ---------------------------------------------------------------
    def run(self):
        self.deferred = []
        self.block(0)
        # hand-offs whose ids were made inside an action but whose work runs after that
        # action (and the whole program) ended - a queued job or a late thread
        for job in self.deferred:
            job()
        return self.forest

    def block(self, depth):
        ctx = self.ctx
        while self.budget > 0:
            ops = ["C"]
            if self.allow_msg:
                ops.append("M")
            if depth < self.max_depth:
                ops.append("O")
            if self.allow_handoff and depth >= 1 and depth < self.max_depth:
                ops.append("H")
            if self.shard.get("deferred") and depth >= 1:
                ops.append("D")
            if self.shard.get("reenter") and depth >= 1 and depth < self.max_depth:
                ops.append("E")
            if self.shard.get("unentered"):
                ops.append("U")
            if self.shard.get("handling") and depth < self.max_depth:
                ops.append("K")
            if self.allow_raise:
                for j in range(1, depth + 1):
                    ops.append(("R", j))
            op = ops[ctx.choose(len(ops), "op@%d" % depth)]
            if op == "C":
                self.ops.append(")")
                return
            self.budget -= 1
            if op == "M":
                self.do_message()
            elif op == "O":
                self.do_open(depth + 1)
            elif op == "H":
                self.do_handoff(depth + 1)
            elif op == "D":
                self.do_deferred_handoff()
            elif op == "E":
                self.do_reenter(depth)  # no new action level: raise(j) still counts enclosing actions
            elif op == "U":
                self.do_unentered()
            elif op == "K":
                # the following block runs while an unrelated, already caught exception is being
                # handled (clean-up / rollback code): sys.exc_info() is not empty in there
                self.ops.append("K(")
                try:
                    raise LookupError("already handled, unrelated")
                except LookupError:
                    self.block(depth)
            else:
                self.n += 1
                e = _mk_exc(self.style("exc", N_EXC), self.n)
                self.ops.append("R%d:%s" % (op[1], type(e).__name__))
                self.in_flight = (e, op[1])
                raise e
        self.ops.append(")")

    # -- messages --------------------------------------------------------------
    def _reseed(self):
        """Application code may seed the global PRNG with the same value again and again
        (reproducible experiments); task ids must not depend on it."""
        import random

        random.seed(20240229)

    def do_message(self):
        self._reseed()
        st = self.style("msg", N_MSG)
        v = self.value()
        self.ops.append("M%d" % st)
        self.n_msgs += 1
        if st == 0:
            if self.shard.get("names"):
                # field names that are legal JSON keys but unusual Python-side, and names that
                # coincide with fields eliot itself uses on *other* kinds of messages
                extra = {"ключ é": 1, "reason": "user text", "exception": "user.Value", "result": [v], "with space": None}
                ref = RefMessage("t:msg", dict(extra, x=v))
                self._attach(ref)
                log_message("t:msg", x=v, **extra)
            else:
                ref = RefMessage("t:msg", {"x": v})
                self._attach(ref)
                log_message("t:msg", x=v)
        elif st == 1:
            ref = RefMessage("t:alog", {"x": v})
            self._attach(ref)
            a = current_action()
            if a is None:
                log_message("t:alog", x=v)
            else:
                a.log("t:alog", x=v)
        elif st == 2:
            ref = RefMessage("t:typedmsg", {"x": _ser(v)})
            self._attach(ref)
            TYPED_MESSAGE.log(x=v)
        elif st == 3:
            ref = RefMessage("t:old", {"x": v})
            self._attach(ref)
            Message.log(message_type="t:old", x=v)
        elif st == 5:
            # deprecated object API: new / bind / write with an explicit action
            ref = RefMessage("t:bound", {"x": v, "y": 2})
            self._attach(ref)
            m = Message.new(message_type="t:bound", x="to be rebound", y=2).bind(x=v)
            a = current_action()
            if a is None:
                m.write()
            else:
                m.write(action=a)
        else:
            self.n += 1
            e = _mk_exc(self.style("exc", N_EXC) if self.shard.get("tb_exc", True) else 0, self.n)
            fields, boom = self.exc_extra(e)
            fields = dict(fields)
            fields.update(reason=exc_reason(e), exception=exc_name(e))
            ref = RefMessage("eliot:traceback", fields, traceback_of=e)
            if boom:
                self._attach(self._extractor_traceback_ref())
            self._attach(ref)
            try:
                raise e
            except BaseException as caught:
                if caught is not e:
                    raise
                write_traceback()
        self.on_logged(ref)
        self._expect_current("after logging a message")

    # -- actions ------------------------------------------------------------------
    def _close_ok(self, ref, action, fields):
        ref.status = "succeeded"
        ref.end_fields = fields

    def _late_extractors(self):
        """After the first failed action: register the extractors of shard["late_ext"]."""
        late = self.shard.get("late_ext")
        if late is None or getattr(self, "_late_done", False):
            return
        self._late_done = True
        for cls, how in extractor_config(int(late)).items():
            self.xcfg[cls] = how
            register_exception_extractor(cls, self.xfuncs[cls] if how == "dict" else _x_raise)

    def _close_failed(self, ref, e, contextless=False):
        """Called outside the failed action, i.e. in the context finish() ran in."""
        self._close_failed_inner(ref, e, contextless)
        self._late_extractors()

    def _close_failed_inner(self, ref, e, contextless=False):
        ref.status = "failed"
        ref.exc = e
        f, boom = self.exc_extra(e)
        f = dict(f)
        f.update(exception=exc_name(e), reason=exc_reason(e))
        ref.end_fields = f
        self.n_failed += 1
        if boom:
            # the extractor's own failure is logged as a traceback in the context
            # where finish() was called (the enclosing action, or none; for open style 6
            # the failing action itself, just before its end message)
            self.n_msgs += 1
            if ref.style == 6:
                ref.children.append(self._extractor_traceback_ref())
            elif contextless:
                self.forest.append(self._extractor_traceback_ref())
            else:
                self._attach(self._extractor_traceback_ref())

    def _body(self, ref, action, depth):
        """Runs the nested block with ``action`` expected to be current."""
        self.stack.append(ref)
        self.astack.append(action)
        try:
            self._expect_current("inside the block")
            self.on_enter(ref, action)
            self.block(depth)
        finally:
            self.stack.pop()
            self.astack.pop()

    def _caught(self, e):
        """Called just outside an action whose block was left by exception ``e``.
        Returns True if the program catches it here."""
        if self.in_flight is None or e is not self.in_flight[0]:
            return None  # not ours: an eliot bug or an engine control-flow exception
        exc, j = self.in_flight
        if j <= 1:
            self.in_flight = None
            return True
        self.in_flight = (exc, j - 1)
        return False

    def do_open(self, depth):
        ctx = self.ctx
        self._reseed()
        st = self.style("open", N_OPEN)
        fin = self.style("fin", N_FIN)
        v = self.value()
        self.ops.append("O%d(" % st)
        self.n_actions += 1
        before = current_action()
        saved_stack = None
        if st == 5:
            # start_task: a new tree whatever the context
            ref = RefAction("t:act0" if self.shard.get("same_type_tasks") else "t:task", {"x": v}, st, new_tree=True)
        elif st == 3:
            ref = RefAction("t:logcall", {"x": v}, st)
        elif st == 4:
            ref = RefAction("t:typed", {"x": _ser(v)}, st)
        else:
            ref = RefAction(self.action_type(st), {"x": v}, st)
        ref.side = self.side
        self._attach(ref)
        action = None
        err = None
        holder = []
        try:
            if st in (0, 4, 5):
                if st == 0 and self.shard.get("explicit_logger"):
                    from eliot import Logger as _Logger

                    action = start_action(_Logger(), ref.type, x=v)  # positional logger / action_type
                elif st == 0:
                    action = start_action(action_type=ref.type, x=v)
                elif st == 4:
                    action = TYPED_ACTION(x=v)
                else:
                    action = start_task(action_type=ref.type, x=v)
                self.on_logged(ref)
                with action as entered:
                    ctx.check(entered is action, "__enter__ returned %r", entered)
                    # success fields set before the body may fail must not leak into a failed end message
                    action.add_success_fields(r="pending")
                    self._body(ref, action, depth)
                    r = self.value()
                    # success fields accumulate; a later call overrides an earlier one
                    action.add_success_fields(r="overridden", extra=1)
                    if st == 4:
                        action.add_success_fields(r=r)
                        self._close_ok(ref, action, {"r": _ser(r), "extra": 1})
                    else:
                        action.add_success_fields(r=r)
                        self._close_ok(ref, action, {"r": r, "extra": 1})
            elif st == 1:
                action = start_action(action_type=ref.type, x=v)
                self.on_logged(ref)
                try:
                    with action.context() as entered:
                        ctx.check(entered is action, "context() yielded %r", entered)
                        self._body(ref, action, depth)
                except BaseException as e:
                    self._expect_current("after leaving context() by exception")
                    action.finish(e)
                    raise
                else:
                    self._expect_current("after leaving context()")
                    r = self.value()
                    action.add_success_fields(r=r)
                    self._close_ok(ref, action, {"r": r})
                    action.finish()
            elif st == 6:
                action = start_action(action_type=ref.type, x=v)
                self.on_logged(ref)
                with action.context():
                    try:
                        self._body(ref, action, depth)
                    except BaseException as e:
                        # finishing while the action itself is still the current one
                        self.finishing_inside = ref
                        try:
                            action.finish(e)
                        finally:
                            self.finishing_inside = None
                        raise
                    else:
                        r = self.value()
                        action.add_success_fields(r=r)
                        self._close_ok(ref, action, {"r": r})
                        action.finish()
            elif st == 2:
                action = start_action(action_type=ref.type, x=v)
                self.on_logged(ref)
                marker = object()

                def f(a, k=None):
                    self._body(ref, action, depth)
                    return marker

                try:
                    got = action.run(f, 1, k=2)
                    ctx.check(got is marker, "Action.run returned %r", got)
                except BaseException as e:
                    self._expect_current("after leaving run() by exception")
                    action.finish(e)
                    raise
                else:
                    self._expect_current("after run()")
                    r = self.value()
                    action.add_success_fields(r=r)
                    self._close_ok(ref, action, {"r": r})
                    action.finish()
            else:  # st == 3, log_call
                r = self.value()

                def thunk():
                    a = current_action()
                    holder.append(a)
                    self.on_logged(ref)
                    self._body(ref, a, depth)
                    return r

                got = _lc_fn(v, thunk)
                action = holder[0]
                ctx.check(got is r, "log_call function returned %r instead of %r", got, r)
                self._close_ok(ref, action, {"result": r})
        except BaseException as e:
            verdict = self._caught(e)
            if verdict is None:
                raise
            if action is None and holder:
                action = holder[0]
            self._close_failed(ref, e)
            err = e
            self.ops.append(")!")
            self._after_block(ref, action, before, fin, err)
            if not verdict:
                raise
            return
        ctx.check(ref.status is not None, "the block of %s (style %d) was left by an exception but nothing propagated to the caller (program %s)", ref.type, st, self.render())
        self._after_block(ref, action, before, fin, None)

    def _after_block(self, ref, action, before, fin, err):
        if self.check_context:
            got = current_action()
            self.ctx.check(got is before, "after leaving %s (style %d, %s) current_action() is %r, expected what it was before entry: %r (program %s)", ref.type, ref.style, "exception" if err else "normal exit", got, before, self.render())
        self.on_exit(ref, action)
        if fin == 1 and action is not None:
            action.finish()
        elif fin == 2 and action is not None:
            action.finish(RuntimeError("late"))
        if fin and self.check_context:
            self.ctx.check(current_action() is before, "extra finish() changed current_action()")

    # -- hand-off -----------------------------------------------------------------------
    def do_handoff(self, depth):
        """serialize_task_id in the current action, continue_task 'elsewhere'
        (messages of the remote side are routed to another file by self.side)."""
        ctx = self.ctx
        parent = current_action()
        as_text = self.style("idtext", 2)
        self.ops.append("H(")
        self.n_handoffs += 1
        self.n_actions += 1
        task_id = parent.serialize_task_id()
        ctx.check(type(task_id) is bytes, "serialize_task_id returned %r", task_id)
        if as_text:
            task_id = task_id.decode("ascii")
        v = self.value()
        ref = RefAction("eliot:remote_task", {"x": v}, 9, remote=True)
        self._attach(ref)
        before = current_action()
        inline = bool(self.shard.get("inline_remote"))
        # the remote side: no inherited context (unless shard["inline_remote"]: the continuation
        # runs in a context that already has a current action), its own destination
        saved = (self.stack, self.astack, self.side)
        self.side = saved[2] + 1 if not self.shard.get("same_side") else saved[2]
        ref.side = self.side
        import contextvars

        def remote():
            if not inline:
                self.stack, self.astack = [], []
            self._expect_current("on the remote side before continue_task")
            kw = {"action_type": "custom:remote"} if self.shard.get("remote_type") else {}
            if kw:
                ref.type = "custom:remote"
            with Action.continue_task(task_id=task_id, x=v, **kw) as action:
                self.on_logged(ref)
                self._body(ref, action, depth)
                self._close_ok(ref, action, {})

        try:
            try:
                if inline:
                    remote()
                else:
                    contextvars.Context().run(remote)
            finally:
                self.stack, self.astack, self.side = saved
        except BaseException as e:
            verdict = self._caught(e)
            if verdict is None:
                raise
            self._close_failed(ref, e, contextless=True)
            self.ops.append(")!")
            if not verdict:
                raise
        if self.check_context:
            ctx.check(current_action() is before, "hand-off changed the originating side's current action")

    def do_unentered(self):
        """An action that is started, used through its own methods and finished explicitly,
        without ever becoming the current action."""
        v = self.value()
        how = self.ctx.choose(3, "how the unentered action ends")
        ref = RefAction("t:unentered", {"x": v}, 8)
        self._attach(ref)
        self.n_actions += 1
        self.ops.append("U%d" % how)
        before = current_action()
        a = start_action(action_type="t:unentered", x=v)
        a.log("t:own", x=v)
        ref.children.append(RefMessage("t:own", {"x": v}))
        if how == 0:
            a.add_success_fields(r=v)
            a.finish()
            ref.status, ref.end_fields = "succeeded", {"r": v}
        elif how == 1:
            e = _mk_exc(self.style("exc", N_EXC), self.n)
            a.finish(e)
            f, boom = self.exc_extra(e)
            f = dict(f)
            f.update(exception=exc_name(e), reason=exc_reason(e))
            ref.status, ref.end_fields, ref.exc = "failed", f, e
            self.n_failed += 1
            if boom:
                self._attach(self._extractor_traceback_ref())
        else:
            a.finish()
            a.finish(ValueError("again"))
            a.add_success_fields(late=1)
            ref.status, ref.end_fields = "succeeded", {}
        if self.check_context:
            self.ctx.check(current_action() is before, "an action that was never entered changed current_action()")

    def do_reenter(self, depth):
        """Re-enter the current action's context()/run() and run a nested block: no new
        node in the reference tree, everything logged inside still belongs to that action."""
        ctx = self.ctx
        a = self.astack[-1]
        how = self.style("reenter_style", 2)
        self.ops.append("E%d(" % how)
        before = current_action()
        try:
            if how == 0:
                with a.context():
                    self._expect_current("inside re-entered context()")
                    self.block(depth)
            else:
                a.run(lambda: (self._expect_current("inside re-entered run()"), self.block(depth)))
        finally:
            if self.check_context:
                ctx.check(current_action() is before, "after leaving the re-entered %s of %r current_action() is %r, expected %r (program %s)", "context()" if how == 0 else "run()", a._identification, current_action(), before, self.render())

    def do_deferred_handoff(self):
        """serialize_task_id now; continue_task only after the program's blocks have ended."""
        parent = current_action()
        task_id = parent.serialize_task_id()
        v = self.value()
        ref = RefAction("eliot:remote_task", {"x": v}, 9, remote=True)
        ref.deferred = True
        self._attach(ref)
        self.ops.append("D")
        self.n_handoffs += 1
        self.n_actions += 1
        side = self.side + 1 if not self.shard.get("same_side") else self.side
        ref.side = side

        def job():
            import contextvars

            saved = self.side
            self.side = side

            def remote():
                with Action.continue_task(task_id=task_id, x=v):
                    mref = RefMessage("t:late", {"x": v})
                    ref.children.append(mref)
                    log_message("t:late", x=v)
                ref.status = "succeeded"
                ref.end_fields = {}

            try:
                contextvars.Context().run(remote)
            finally:
                self.side = saved

        self.deferred.append(job)

    def render(self):
        return " ".join(self.ops)

    def render_forest(self):
        return " | ".join(n.render() for n in self.forest)


# ---------------------------------------------------------------------------
# strict JSON-value equality and reference/parsed tree comparison
# ---------------------------------------------------------------------------
def same_value(a, b):
    if type(a) is not type(b):
        return False
    if isinstance(a, float):
        return repr(a) == repr(b)
    if isinstance(a, list):
        return len(a) == len(b) and all(same_value(x, y) for x, y in zip(a, b))
    if isinstance(a, dict):
        return set(a) == set(b) and all(same_value(a[k], b[k]) for k in a)
    return a == b


def fields_match(expected, contents, ignore=()):
    """contents (a mapping from the parser) must hold exactly ``expected``."""
    got = {k: contents[k] for k in contents if k not in ignore}
    if set(got) != set(expected):
        return "field names %s, expected %s" % (sorted(got), sorted(expected))
    for k in expected:
        gv = got[k]
        try:
            from pyrsistent import thaw

            gv = thaw(gv)
        except Exception:
            pass
        if not same_value(expected[k], gv):
            return "field %r is %r, expected %r" % (k, gv, expected[k])
    return None


def compare_node(ref, written, path="root"):
    """-> None or a description of the first difference."""
    from eliot.parse import WrittenAction, WrittenMessage

    if ref.kind == "message":
        if not isinstance(written, WrittenMessage):
            return "%s: expected message %s, parser has %r" % (path, ref.type, type(written).__name__)
        exp = dict(ref.fields)
        exp["message_type"] = ref.type
        ignore = ("traceback",) if ref.traceback_of is not None else ()
        if ref.traceback_of is not None and "traceback" not in written.contents:
            return "%s: traceback message without traceback text" % path
        d = fields_match(exp, written.contents, ignore)
        return d and "%s: message %s: %s" % (path, ref.type, d)
    if not isinstance(written, WrittenAction):
        return "%s: expected action %s, parser has %r" % (path, ref.type, type(written).__name__)
    if written.start_message is None:
        return "%s: action %s has no start message" % (path, ref.type)
    exp = dict(ref.start_fields)
    exp.update(action_type=ref.type, action_status="started")
    d = fields_match(exp, written.start_message.contents)
    if d:
        return "%s: start of %s: %s" % (path, ref.type, d)
    if ref.status is None:
        if written.end_message is not None:
            return "%s: unfinished action %s has an end message" % (path, ref.type)
    else:
        if written.end_message is None:
            return "%s: action %s has no end message" % (path, ref.type)
        exp = dict(ref.end_fields)
        exp.update(action_type=ref.type, action_status=ref.status)
        d = fields_match(exp, written.end_message.contents)
        if d:
            return "%s: end of %s: %s" % (path, ref.type, d)
        if written.status != ref.status:
            return "%s: status %r" % (path, written.status)
    kids = list(written.children)
    if len(kids) != len(ref.children):
        return "%s: action %s has %d children, program made %d" % (path, ref.type, len(kids), len(ref.children))
    for i, (rc, wc) in enumerate(zip(ref.children, kids)):
        d = compare_node(rc, wc, "%s/%d" % (path, i + 1))
        if d:
            return d
    return None


def count_nodes(ref):
    if ref.kind == "message":
        return 1
    return 2 * (ref.status is not None) + (ref.status is None) + sum(count_nodes(c) for c in ref.children)
