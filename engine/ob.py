"""Obligation descriptors shared by property modules, worker and vcheck."""

from dataclasses import dataclass, field
from typing import Any, Callable, Dict, List, Optional, Sequence, Union


@dataclass
class Ob:
    name: str  # e.g. "L1", "E1"
    fn: Callable  # CrossHair-analysed harness (typed params, ``post: _``)
    body: Callable  # body(ctx, **params): the real check, shared with replay
    mode: str  # "S" symbolic data under the tracer | "X" native body + choose()
    desc: str = ""
    functions: Sequence[str] = ()  # eliot functions executed
    # shards[tier] -> list of shard dicts (each may carry "prefix" and free keys
    # the body reads from ctx.shard).  A callable gets the tier name.
    shards: Union[Dict[str, List[dict]], Callable[[str], List[dict]], None] = None
    timeout: Dict[str, float] = field(default_factory=lambda: {"quick": 60, "thorough": 600})
    path_timeout: float = 30.0
    twin: Optional[List[dict]] = None  # shard dicts for the reachability twin(s); None -> [{}]
    bounds: Dict[str, str] = field(default_factory=dict)
    assumptions: Sequence[str] = ()
    tiers: Sequence[str] = ("quick", "thorough")
    # SMT obligations (direct z3/cvc5 encodings) use ``smt`` instead of fn/body:
    smt: Optional[Callable[[str], dict]] = None

    def shard_list(self, tier):
        s = self.shards
        if s is None:
            return [{}]
        if callable(s):
            return s(tier)
        return s.get(tier) or s.get("quick") or [{}]

    def twin_list(self, tier):
        if self.twin is None:
            first = dict(self.shard_list(tier)[0])
            return [first]
        return self.twin
