"""Deterministic scheduler for real threads, driven by ctx.choose (DESIGN 1.6).

The workers are real ``threading.Thread``s but only one runs at a time.  A
worker hands control back to the scheduler (which runs on the analysing
thread) at every *yield point*:

  * every ``line`` event of a function defined in a watched file (optionally
    restricted to named functions) - installed with ``sys.settrace`` in the
    worker only;
  * explicit ``sched.yield_point()`` calls made by harness code;
  * blocking on a cooperative primitive (SchedLock / SchedQueue / SchedThread.join).

At each yield point the scheduler asks the solver which runnable worker goes
next.  Preemption bounding (CHESS): the running worker continues unless the
solver decides to preempt, and that question is only asked while fewer than
``P`` preemptions were spent; forced switches (finished / blocked) are free.
A state with unfinished workers none of which is runnable is a deadlock.
"""

import sys
import threading


class _Kill(BaseException):
    """Unwinds a worker when its path is abandoned."""


class Deadlock(Exception):
    pass


class Worker(object):
    def __init__(self, sched, fn, name):
        self.sched = sched
        self.fn = fn
        self.name = name
        self.sem = threading.Semaphore(0)
        self.finished = False
        self.started = False
        self.result = None
        self.exc = None
        self.blocked_on = None  # object with .would_block(worker) -> bool
        self.steps = 0
        self.thread = threading.Thread(target=self._main, name="sched-" + name, daemon=True)
        self.ident = None

    # runs in the worker thread ---------------------------------------------
    def _main(self):
        self.sem.acquire()
        self.ident = threading.get_ident()
        self.sched._by_ident[self.ident] = self
        try:
            if self.sched.abort:
                return
            if self.sched.watch:
                sys.settrace(self._global_trace)
            try:
                self.result = self.fn()
            finally:
                sys.settrace(None)
        except _Kill:
            pass
        except BaseException as e:  # noqa
            self.exc = e
        finally:
            self.finished = True
            self.sched.back.release()

    def _global_trace(self, frame, event, arg):
        if event != "call":
            return None
        names = self.sched.watch.get(frame.f_code.co_filename, False)
        if names is False:
            return None
        if names is not None and frame.f_code.co_name not in names:
            return None
        if self.sched.granularity == "call":
            self.pause("call " + frame.f_code.co_name)
            return None
        return self._local_trace

    def _local_trace(self, frame, event, arg):
        if event == "line":
            self.pause("%s:%d" % (frame.f_code.co_name, frame.f_lineno))
        return self._local_trace

    def pause(self, where=""):
        """Yield point: give control to the scheduler, wait to be resumed."""
        s = self.sched
        if s.abort:
            return
        self.where = where
        self.steps += 1
        s.back.release()
        self.sem.acquire()
        if s.abort and self.blocked_on is not None:
            raise _Kill()

    def runnable(self):
        if self.finished:
            return False
        b = self.blocked_on
        if b is not None and b.would_block(self):
            return False
        return True


class Sched(object):
    def __init__(self, ctx, watch=None, preemptions=2, granularity="line", max_steps=20000):
        self.ctx = ctx
        self.watch = dict(watch or {})
        self.P = preemptions
        self.granularity = granularity
        self.workers = []
        self.back = threading.Semaphore(0)
        self.abort = False
        self.current = None
        self.preemptions = 0
        self.switches = 0
        self.max_steps = max_steps
        self._by_ident = {}
        self.log = []  # (worker name, where) per step, for counterexample rendering
        self.on_step = None  # optional callback(sched) run on the scheduler thread after every step
        self.timeouts_expire = False  # True: join(timeout=...) on an unfinished thread times out

    # -- API for harness code running inside workers ---------------------------
    def me(self):
        return self._by_ident.get(threading.get_ident())

    def yield_point(self, where="explicit"):
        w = self.me()
        if w is not None:
            w.pause(where)

    def spawn(self, fn, name=None):
        w = Worker(self, fn, name or "w%d" % len(self.workers))
        self.workers.append(w)
        w.thread.start()
        return w

    # -- the scheduling loop (analysing thread) -----------------------------------
    def run(self):
        # The cyclic garbage collector must not run on a worker thread: it could finalise z3
        # objects (ctypes calls, GIL released) while the analysing thread is inside z3 - a data
        # race inside libz3 that was observed as a segmentation fault of the worker process
        # (about once per 10^4 paths with three threads).  Collection is switched off while
        # workers exist and happens on the analysing thread afterwards.
        import gc

        was_enabled = gc.isenabled()
        gc.disable()
        try:
            self._loop()
        finally:
            self._cleanup()
            if was_enabled:
                gc.enable()

    def _loop(self):
        ctx = self.ctx
        steps = 0
        while True:
            runnable = [w for w in self.workers if w.runnable()]
            if not runnable:
                if all(w.finished for w in self.workers):
                    return
                raise Deadlock("deadlock: %s" % ", ".join("%s blocked on %s" % (w.name, type(w.blocked_on).__name__) for w in self.workers if not w.finished))
            cur = self.current
            if cur is not None and cur in runnable:
                pick = cur
                others = [w for w in runnable if w is not cur]
                if others and self.preemptions < self.P:
                    if ctx.flag("preempt"):
                        self.preemptions += 1
                        pick = others[ctx.choose(len(others), "switch-to")]
            else:
                pick = runnable[ctx.choose(len(runnable), "next")]
            if pick is not self.current:
                self.switches += 1
            self.current = pick
            pick.started = True
            pick.sem.release()
            self.back.acquire()
            self.log.append((pick.name, getattr(pick, "where", "")))
            steps += 1
            if self.on_step is not None:
                self.on_step(self)
            if steps > self.max_steps:
                raise Deadlock("livelock: more than %d steps" % self.max_steps)

    def _cleanup(self):
        self.abort = True
        for w in self.workers:
            guard = 0
            while not w.finished and guard < 100000:
                guard += 1
                w.sem.release()
                self.back.acquire()
        for w in self.workers:
            w.thread.join(timeout=5)

    def render(self, limit=60):
        out = []
        last = None
        for name, where in self.log:
            if name != last:
                out.append("%s@%s" % (name, where))
                last = name
        return " -> ".join(out[-limit:])


# -- cooperative primitives -------------------------------------------------------
class SchedLock(object):
    """Same contract as threading.Lock (non-reentrant); blocking cooperates with Sched."""

    def __init__(self, sched):
        self.sched = sched
        self.held = False
        self.owner = None

    def would_block(self, worker):
        return self.held

    def acquire(self, blocking=True, timeout=-1):
        w = self.sched.me()
        while True:
            if not self.held:
                self.held = True
                self.owner = w
                if w is not None:
                    w.blocked_on = None
                return True
            if not blocking:
                return False
            if w is None:
                raise Deadlock("scheduler thread would block on a lock held by %s" % (self.owner and self.owner.name))
            if self.sched.abort:
                raise _Kill()
            w.blocked_on = self
            w.pause("blocked on lock")

    def release(self):
        if not self.held:
            raise RuntimeError("release unlocked lock")
        self.held = False
        self.owner = None

    def locked(self):
        return self.held

    def __enter__(self):
        self.acquire()
        return True

    def __exit__(self, *a):
        self.release()
        return False


class SchedQueue(object):
    """Same contract as queue.SimpleQueue: unbounded FIFO, get() blocks while empty."""

    def __init__(self, sched):
        self.sched = sched
        self.items = []

    def would_block(self, worker):
        return not self.items

    def put(self, item, block=True, timeout=None):
        self.items.append(item)

    def get(self, block=True, timeout=None):
        w = self.sched.me()
        while True:
            if self.items:
                if w is not None:
                    w.blocked_on = None
                return self.items.pop(0)
            if w is None:
                raise Deadlock("scheduler thread would block on an empty queue")
            if self.sched.abort:
                raise _Kill()
            w.blocked_on = self
            w.pause("blocked on queue")

    def empty(self):
        return not self.items

    def qsize(self):
        return len(self.items)


class SchedThread(object):
    """Same contract as the part of threading.Thread eliot uses: start(), join()."""

    def __init__(self, sched, target=None, name=None, args=(), kwargs=None):
        self.sched = sched
        self.target = target
        self.args = args
        self.kwargs = kwargs or {}
        self.name = name or "thread"
        self.worker = None

    def start(self):
        self.worker = self.sched.spawn(lambda: self.target(*self.args, **self.kwargs), self.name)

    def would_block(self, worker):
        return self.worker is None or not self.worker.finished

    def join(self, timeout=None):
        w = self.sched.me()
        if timeout is not None and getattr(self.sched, "timeouts_expire", False) and (self.worker is None or not self.worker.finished):
            # a bounded wait in an environment where the awaited thread can be arbitrarily slow:
            # the timeout elapses (threading.Thread.join then returns None, silently)
            if w is not None:
                w.pause("join timed out")
            return
        while self.worker is None or not self.worker.finished:
            if w is None:
                raise Deadlock("scheduler thread would block in join")
            if self.sched.abort:
                raise _Kill()
            w.blocked_on = self
            w.pause("blocked in join")
        if w is not None:
            w.blocked_on = None

    def is_alive(self):
        return self.worker is not None and not self.worker.finished


def selfcheck():
    """Differential check of the cooperative primitives against the real ones
    on the operation sequences the harnesses use (DESIGN 1.12).  -> list of problems."""
    import queue

    problems = []

    class _NoSched:
        abort = False

        def me(self):
            return None

    s = _NoSched()
    a, b = SchedLock(s), threading.Lock()
    seq = [("acq", False), ("acq", False), ("rel",), ("acq", True), ("locked",), ("rel",), ("locked",)]
    for op in seq:
        ra = rb = None
        if op[0] == "acq":
            ra, rb = a.acquire(op[1]), b.acquire(op[1])
        elif op[0] == "rel":
            a.release(), b.release()
        else:
            ra, rb = a.locked(), b.locked()
        if ra != rb:
            problems.append("SchedLock %r -> %r, threading.Lock -> %r" % (op, ra, rb))
    try:
        a.release()
        problems.append("SchedLock: release of an unlocked lock did not raise")
    except RuntimeError:
        pass
    qa, qb = SchedQueue(s), queue.SimpleQueue()
    for i in range(4):
        qa.put(i), qb.put(i)
    for i in range(4):
        if qa.get() != qb.get():
            problems.append("SchedQueue is not FIFO like SimpleQueue")
    if qa.empty() != qb.empty():
        problems.append("SchedQueue.empty differs")
    return problems
