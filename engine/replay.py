"""Native replay of a counterexample file (no CrossHair import).

exit 1 = the oracle fails again on /repo (printed), 0 = it does not.
"""

import importlib
import json
import sys


def main(path):
    with open(path) as f:
        doc = json.load(f)
    from engine import core

    assert "crosshair" not in sys.modules
    mod = importlib.import_module(doc["module"])
    ob = next(o for o in mod.OBLIGATIONS if o.name == doc["ob"])
    params = core._unpack(doc["params"])
    failed, msg, sig = core.replay(ob.body, ob.mode, params, doc["trace"], shard=doc.get("shard"))
    assert "crosshair" not in sys.modules, "replay must not depend on CrossHair"
    print("replay of %s obligation %s against %s" % (doc["property"], doc["ob"], core.REPO))
    print("  params: %s" % (doc.get("params_repr") or params))
    print("  decisions: %s" % doc["trace"])
    if failed:
        print("  REPRODUCED: %s" % msg)
        return 1
    print("  not reproduced (%s)" % msg)
    return 0


if __name__ == "__main__":
    sys.exit(main(sys.argv[1]))
