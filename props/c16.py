"""C16 - loggers are safe to write to from many threads at once."""

import itertools
import json

from engine.core import run, enumerate_prefixes
from engine.ob import Ob
from engine.sched import Sched, SchedLock, Deadlock

import eliot
from eliot import _output, MessageType, Field
from eliot._output import MemoryLogger, FileDestination
from eliot._traceback import TRACEBACK_MESSAGE

PROPERTY = "C16"
NONTRIVIAL_RULE = (
    "A leaf is one schedule (decision vector) of one operation assignment; non-trivial when at least one "
    "context switch happened while a MemoryLogger/FileDestination call was in progress; keyed by (ops, decision vector)."
)
EXPLANATION = (
    "Real threads serialised by a solver-driven scheduler with yield points at every source line of "
    "eliot/_output.py; every Lock the output layer creates (eliot._output.Lock, at construction or lazily) is a cooperative lock with threading.Lock's contract. "
    "Oracle: the final logger state and every operation's result equal those of some sequential order of the "
    "same operations (linearisability), the parallel lists stay paired, no deadlock; for FileDestination the "
    "recorded file content is a permutation of whole lines."
)
ASSUMPTIONS = [
    "threads interleave only between source lines of eliot/_output.py (line-granularity yield points); code in other files runs atomically",
    "SchedLock has threading.Lock's contract (differentially checked on the used sequences at start-up)",
    "file.write(data) is atomic per call (io.BufferedWriter / C-level write under the GIL)",
    "GIL CPython, no free threading",
]

OUT_FILE = _output.__file__
import threading as _threading

_REAL_LOCK = _threading.Lock()
TYPED = MessageType("t:typed", [Field.for_types("x", [int], "x")], "typed")

OPS = ["write-plain", "write-typed", "write-traceback", "validate", "serialize", "flush", "reset", "write-invalid"]


def _make_op(logger, name, tag):
    """-> (callable, message dict or None, serializer)"""
    if name == "write-plain":
        m = {"message_type": "t:plain", "tag": tag}
        return (lambda: logger.write(m, None)), m, None
    if name == "write-typed":
        m = {"message_type": "t:typed", "x": tag}
        return (lambda: logger.write(m, TYPED._serializer)), m, TYPED._serializer
    if name == "write-invalid":
        m = {"message_type": "t:typed", "x": "not-an-int-%d" % tag}
        return (lambda: logger.write(m, TYPED._serializer)), m, TYPED._serializer
    if name == "write-traceback":
        m = {"message_type": "eliot:traceback", "reason": ValueError("v%d" % tag), "traceback": "tb", "exception": ValueError, "tag": tag}
        return (lambda: logger.write(m, TRACEBACK_MESSAGE._serializer)), m, TRACEBACK_MESSAGE._serializer
    if name == "validate":
        return logger.validate, None, None
    if name == "serialize":
        return logger.serialize, None, None
    if name == "flush":
        return (lambda: logger.flush_tracebacks(ValueError)), None, None
    if name == "reset":
        return logger.reset, None, None
    raise KeyError(name)


def _outcome(fn):
    try:
        r = fn()
    except Exception as e:
        return ("raised", type(e).__name__)
    if isinstance(r, list):
        return ("list", tuple(_ident(x) for x in r))
    return ("ok", None)


def _ident(m):
    return m.get("tag", m.get("x"))


def _state(logger):
    return (
        tuple(_ident(m) for m in logger.messages),
        tuple(id(s) for s in logger.serializers),
        tuple(_ident(m) for m in logger.tracebackMessages),
        len(logger._failed_validations),
    )


def _preload(logger, n):
    for k in range(n):
        logger.write({"message_type": "t:typed", "x": 900 + k}, TYPED._serializer)


def _sequential_outcomes(thread_ops, preload=0):
    """All (final state, per-op outcomes) reachable by running whole operations one at a time."""
    flat = [(t, i) for t, ops in enumerate(thread_ops) for i in range(len(ops))]
    results = set()
    for perm in itertools.permutations(flat):
        # keep per-thread program order
        if any(perm.index((t, i)) > perm.index((t, i + 1)) for t, ops in enumerate(thread_ops) for i in range(len(ops) - 1)):
            continue
        lg = MemoryLogger()
        _preload(lg, preload)
        outs = {}
        for (t, i) in perm:
            fn, _, _ = _make_op(lg, thread_ops[t][i], 10 * (t + 1) + i)
            outs[(t, i)] = _outcome(fn)
        results.add((_state(lg), tuple(sorted(outs.items()))))
    return results


def body_E1(ctx):
    sh = ctx.shard
    nthreads = sh.get("threads", 2)
    per = sh.get("ops_per_thread", 1)
    menu = sh.get("menu") or OPS
    if sh.get("scripts"):
        # thread 0: one solver-chosen reader op; thread 1: a fixed write-after-reset script
        readers = sh["scripts"]["readers"]
        thread_ops = [list(sh["scripts"].get("reader_prefix", [])) + [readers[ctx.choose(len(readers), "reader op")]], list(sh["scripts"]["writer"])]
        nthreads = 2
    else:
        thread_ops = [[menu[ctx.choose(len(menu), "op t%d.%d" % (t, i))] for i in range(per)] for t in range(nthreads)]
    preload = int(sh.get("preload", 0))
    sched = Sched(ctx, watch={OUT_FILE: None}, preemptions=sh.get("P", 3))
    # Every threading.Lock the output layer creates from here on - in MemoryLogger.__init__ or
    # lazily, on first use, by whichever thread gets there - is a cooperative lock.
    locks = []

    def make_lock():
        locks.append(SchedLock(sched))
        return locks[-1]

    saved_lock_factory = getattr(_output, "Lock", None)
    if saved_lock_factory is not None:
        _output.Lock = make_lock
    try:
        return _body_E1_locked(ctx, sh, sched, locks, thread_ops, nthreads, preload)
    finally:
        if saved_lock_factory is not None:
            _output.Lock = saved_lock_factory


def _body_E1_locked(ctx, sh, sched, locks, thread_ops, nthreads, preload):
    logger = MemoryLogger()
    _preload(logger, preload)
    if not locks and isinstance(logger.__dict__.get("_lock"), type(_REAL_LOCK)):
        # the lock was not made through _output.Lock: swap the instance attribute instead
        logger._lock = SchedLock(sched)
        locks.append(logger._lock)
    outs = {}
    written = [(m, s) for m, s in zip(logger.messages, logger.serializers)]

    # scripted histories: thread 0 first runs its prefix (e.g. a write of an invalid message and the
    # validate() call that raises because of it) while thread 1 waits at a gate, then both race
    nprefix = len(sh["scripts"].get("reader_prefix", [])) if sh.get("scripts") else 0
    gate = None
    if nprefix:
        gate = SchedLock(sched)
        gate.acquire()

    def mk(t):
        def work():
            if gate is not None and t == 1:
                gate.acquire()
                gate.release()
            for i, name in enumerate(thread_ops[t]):
                if gate is not None and t == 0 and i == nprefix:
                    gate.release()
                fn, m, ser = _make_op(logger, name, 10 * (t + 1) + i)
                if m is not None:
                    written.append((m, ser))
                outs[(t, i)] = _outcome(fn)

        return work

    def invariant(s):
        if not any(l.held for l in locks):
            ctx.check(len(logger.messages) == len(logger.serializers), "lock is free but messages/serializers have lengths %d/%d (%s)", len(logger.messages), len(logger.serializers), s.render())

    sched.on_step = invariant
    for t in range(nthreads):
        sched.spawn(mk(t), "T%d" % t)
    try:
        sched.run()
    except Deadlock as e:
        ctx.fail("%s with ops %r, schedule %s" % (e, thread_ops, sched.render()))
    for w in sched.workers:
        ctx.check(w.exc is None, "worker %s died with %r", w.name, w.exc)
    # pairing
    ctx.check(len(logger.messages) == len(logger.serializers), "messages/serializers lengths differ: %d/%d; ops %r schedule %s", len(logger.messages), len(logger.serializers), thread_ops, sched.render())
    for m, s in zip(logger.messages, logger.serializers):
        exp = [ser for (mm, ser) in written if mm is m]
        ctx.check(len(exp) == 1 and exp[0] is s, "message %r is paired with serializer %r, it was written with %r; ops %r schedule %s", _ident(m), s, exp, thread_ops, sched.render())
    ids = [id(m) for m in logger.messages]
    ctx.check(len(ids) == len(set(ids)), "a message was recorded twice")
    got = (_state(logger), tuple(sorted(outs.items())))
    allowed = _sequential_outcomes(thread_ops, preload)
    ctx.check(got in allowed, "outcome %r of ops %r under schedule %s equals no sequential order of the operations (allowed: %r)", got, thread_ops, sched.render(), list(allowed)[:4])
    if sched.switches > nthreads:
        ctx.nontrivial((tuple(map(tuple, thread_ops)), tuple(ctx.trace)))
        ctx.reached("interleaved")
    ctx.sample({"ops": thread_ops, "schedule": sched.render(12), "context_switches": sched.switches, "final_messages": [_ident(m) for m in logger.messages]})


def E1() -> bool:
    """
    post: _
    """
    return run(body_E1, "X", {})


# -- E2: concurrent FileDestination calls -----------------------------------------
class RecFile(object):
    sched = None  # set by the harness: each write() is atomic, but a thread switch may follow it

    def __init__(self):
        self.events = []

    def write(self, data):
        if isinstance(data, str):
            raise TypeError("binary")
        if isinstance(data, (bytearray, memoryview)):
            data = bytes(data)  # real binary files take any bytes-like object and copy it at once
        if data:
            self.events.append(bytes(data))
            if self.sched is not None:
                self.sched.yield_point("after file.write")

    def writelines(self, lines):
        # io.IOBase.writelines: one write() call per item, nothing atomic about it
        for line in lines:
            self.write(line)

    def flush(self):
        pass


def body_E2(ctx):
    sh = ctx.shard
    nthreads = sh.get("threads", 2)
    f = RecFile()
    dest = FileDestination(file=f)
    sched = Sched(ctx, watch={OUT_FILE: None}, preemptions=sh.get("P", 3))
    f.sched = sched
    msgs = [[{"task_uuid": "u%d" % t, "task_level": [i + 1], "timestamp": 1.0, "message_type": "t:m", "payload": "x" * (t + 1)} for i in range(sh.get("msgs", 2))] for t in range(nthreads)]

    def mk(t):
        def work():
            for m in msgs[t]:
                dest(m)

        return work

    for t in range(nthreads):
        sched.spawn(mk(t), "T%d" % t)
    sched.run()
    for w in sched.workers:
        ctx.check(w.exc is None, "worker %s died with %r", w.name, w.exc)
    blob = b"".join(f.events)
    lines = blob.split(b"\n")
    ctx.check(lines[-1] == b"", "file does not end with a newline: %r", blob[-40:])
    got = []
    for ln in lines[:-1]:
        try:
            got.append(json.loads(ln))
        except Exception:
            ctx.fail("torn or merged line %r under schedule %s" % (ln, sched.render()))
    exp = [m for t in msgs for m in t]
    ctx.check(sorted(map(json.dumps, got)) == sorted(map(json.dumps, exp)), "lines are not a permutation of the messages: %r", got)
    for t in range(nthreads):
        mine = [g for g in got if g["task_uuid"] == "u%d" % t]
        ctx.check(mine == msgs[t], "messages of thread %d out of order: %r", t, mine)
    if sched.switches > nthreads:
        ctx.nontrivial(tuple(ctx.trace))
        ctx.reached("interleaved")
    ctx.sample({"schedule": sched.render(12), "lines": len(got)})


def E2() -> bool:
    """
    post: _
    """
    return run(body_E2, "X", {})


def _e1_shards(tier):
    scripted = {"threads": 2, "P": 2, "preload": 1, "scripts": {"readers": ["validate", "serialize", "flush"], "writer": ["reset", "write-traceback"]}}
    # a locked call that raised earlier in the same thread (validate() on an invalid message), then a race
    after_raise = {"threads": 2, "P": 2, "preload": 0, "scripts": {"reader_prefix": ["write-invalid", "validate"], "readers": ["write-typed", "flush", "reset"], "writer": ["write-traceback"]}}
    if tier == "quick":
        base = {"threads": 2, "ops_per_thread": 1, "P": 2}
        return [dict(base, prefix=p) for p in enumerate_prefixes(body_E1, "X", {}, base, 2)] + [dict(scripted, prefix=p) for p in enumerate_prefixes(body_E1, "X", {}, scripted, 2)] + [dict(after_raise, prefix=p) for p in enumerate_prefixes(body_E1, "X", {}, after_raise, 2)]
    out = [dict(dict(scripted, P=3), prefix=p) for p in enumerate_prefixes(body_E1, "X", {}, dict(scripted, P=3), 3)]
    out += [dict(dict(after_raise, P=3), prefix=p) for p in enumerate_prefixes(body_E1, "X", {}, dict(after_raise, P=3), 3)]
    base = {"threads": 2, "ops_per_thread": 1, "P": 3}
    out += [dict(base, prefix=p) for p in enumerate_prefixes(body_E1, "X", {}, base, 2)]
    base = {"threads": 3, "ops_per_thread": 1, "P": 2, "menu": ["write-typed", "write-traceback", "validate", "flush", "reset"]}
    out += [dict(base, prefix=p) for p in enumerate_prefixes(body_E1, "X", {}, base, 3)]
    base = {"threads": 2, "ops_per_thread": 2, "P": 2, "menu": ["write-traceback", "flush", "reset"]}
    out += [dict(base, prefix=p) for p in enumerate_prefixes(body_E1, "X", {}, base, 4)]
    return out


def _e2_shards(tier):
    if tier == "quick":
        return [{"threads": 2, "msgs": 2, "P": 3}]
    return [{"threads": 2, "msgs": 2, "P": 4}, {"threads": 3, "msgs": 1, "P": 3}]


OBLIGATIONS = [
    Ob(
        "E1",
        E1,
        body_E1,
        "X",
        desc="concurrent write/validate/serialize/flush_tracebacks/reset on one MemoryLogger: linearisable, lists paired, no deadlock",
        functions=["exclusively", "MemoryLogger.write", "MemoryLogger._validate_message", "MemoryLogger.validate", "MemoryLogger.serialize", "MemoryLogger.flushTracebacks", "MemoryLogger.reset"],
        shards=_e1_shards,
        twin=[{"threads": 2, "ops_per_thread": 1, "P": 2, "twin_label": "interleaved"}],
        timeout={"quick": 100, "thorough": 1500},
        bounds={"quick": "2 threads x 1 operation each from 8 kinds (64 assignments), and validate|serialize|flush racing a reset-then-write script on a logger that already holds a message; write|flush|reset racing a traceback write in a thread whose previous validate() raised; every schedule with <= 2 preemptions at line granularity in eliot/_output.py", "thorough": "2 threads x 1 op with <= 3 preemptions; 3 threads x 1 op from 5 kinds and 2 threads x 2 ops from 3 kinds with <= 2 preemptions; the scripted race with <= 3"},
    ),
    Ob(
        "E2",
        E2,
        body_E2,
        "X",
        desc="concurrent calls of one FileDestination: recorded content is a permutation of whole lines, per-thread order kept",
        functions=["FileDestination.__call__"],
        shards=_e2_shards,
        twin=[{"threads": 2, "msgs": 2, "P": 3, "twin_label": "interleaved"}],
        timeout={"quick": 100, "thorough": 900},
        bounds={"quick": "2 threads x 2 messages, <= 3 preemptions, line granularity", "thorough": "2 threads x 2 messages <= 4 preemptions; 3 threads x 1 message <= 3 preemptions"},
    ),
]
