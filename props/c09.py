"""C09 - parsing is order-independent and detects task completeness exactly."""

import json

from engine.core import run, enumerate_prefixes
from engine.ob import Ob
from engine import interp as I

from eliot import _output
from eliot._output import Logger
from eliot.parse import Parser, Task
from eliot._action import WrittenAction, TaskLevel
from eliot._message import WrittenMessage

PROPERTY = "C09"
NONTRIVIAL_RULE = (
    "E1 leaves are (task shape, subset of its messages, ordered pair of further messages); non-trivial when the subset "
    "is neither empty nor misses only the pair; E2 leaves are interleavings of 2-3 tasks; keyed by decision vector."
)
EXPLANATION = (
    "Commutation lemma instead of n! permutations: for every well-formed task shape (emitted by the real logging code), "
    "every subset S of its messages and every two further messages a, b: Task.add commutes on fold(S) (pyrsistent equality), "
    "fold(S) equals an independent set-based reference builder, never raises, and is complete iff S is the whole task. "
    "By induction over adjacent transpositions the final parser state is the same for every arrival order. E2 checks "
    "Parser.parse_stream yields each task exactly once, exactly at its last message. L1 proves the completeness rule "
    "for a symbolic end position."
)
ASSUMPTIONS = ["input messages are well-formed (produced by eliot's own logging code); ill-formed input is outside the property"]


def make_tasks(ctx, max_ops, max_depth, handoff=True):
    """Run a solver-chosen program natively and return its messages grouped per task (emission order)."""
    received = []
    Logger._destinations.add(received.append)
    it = I.Interp(ctx, max_ops, max_depth, allow_handoff=handoff, allow_raise=bool(ctx.shard.get("raise", 0)))
    it.check_context = False
    it.run()
    tasks = {}
    for m in received:
        if "action_type" not in m and m["task_level"][-1] % 2 == 0:
            # a plain message may carry an application field that happens to be called action_status
            # (log_message("app:m", action_status="shipped")): only action_type makes a message an action's start/end
            m = dict(m, action_status="shipped")
        tasks.setdefault(m["task_uuid"], []).append(m)
    return it, list(tasks.values())


# -- independent reference: expected parser state for a subset of a task's messages ---------
def ref_state(msgs):
    """-> (nodes, completed): nodes maps level-tuple -> ("message", dict) | ("action", start, end, frozenset(children))."""
    nodes = {}
    if not msgs:
        return {}, set()
    by_level = {tuple(m["task_level"]): m for m in msgs}
    # context-less single message task
    if len(by_level) == 1 and (1,) in by_level and "action_type" not in by_level[(1,)]:
        return {(): ("message", by_level[(1,)])}, {()}
    actions = {}
    msgnodes = {}

    def action(prefix):
        if prefix not in actions:
            actions[prefix] = {"start": None, "end": None, "children": set()}
            if prefix != ():
                action(prefix[:-1])["children"].add(prefix)
        return actions[prefix]

    for lvl, m in by_level.items():
        a = action(lvl[:-1])
        if "action_type" in m:
            if m["action_status"] == "started":
                a["start"] = m
            else:
                a["end"] = m
        else:
            msgnodes[lvl] = m
            a["children"].add(lvl)
    completed = set()

    def is_complete(prefix):
        a = actions[prefix]
        if a["start"] is None or a["end"] is None:
            return False
        if len(a["children"]) != a["end"]["task_level"][-1] - 2:
            return False
        return all(is_complete(c) for c in a["children"] if c in actions)

    for prefix, a in actions.items():
        nodes[prefix] = ("action", a["start"], a["end"], frozenset((c, json.dumps(msgnodes[c], sort_keys=True, default=repr) if c in msgnodes else "action") for c in a["children"]))
        if is_complete(prefix):
            completed.add(prefix)
    return nodes, completed


def actual_state(task):
    nodes = {}
    for lvl, node in task._nodes.items():
        key = tuple(lvl.as_list())
        if isinstance(node, WrittenAction):
            nodes[key] = (
                "action",
                dict(node.start_message.as_dict()) if node.start_message else None,
                dict(node.end_message.as_dict()) if node.end_message else None,
                frozenset((tuple(k.as_list()), json.dumps(dict(ch.as_dict()), sort_keys=True, default=repr) if isinstance(ch, WrittenMessage) else "action") for k, ch in node._children.items()),
            )
            for k, child in node._children.items():
                # the child stored inside the parent must be the up-to-date node
                cur = task._nodes.get(k)
                if isinstance(child, WrittenAction):
                    if cur != child:
                        nodes[key] = nodes[key] + ("STALE child %r" % (k.as_list(),),)
        else:
            nodes[key] = ("message", dict(node.as_dict()))
    return nodes, set(tuple(l.as_list()) for l in task._completed)


def norm(state):
    nodes, completed = state

    def nd(v):
        if v is None:
            return None
        return json.dumps(v, sort_keys=True, default=repr)

    out = {}
    for k, v in nodes.items():
        if v[0] == "message":
            out[k] = ("message", nd(v[1]))
        else:
            out[k] = ("action", nd(v[1]), nd(v[2]), v[3]) + tuple(v[4:])
    return out, completed


def fold(msgs):
    t = Task()
    for m in msgs:
        t = t.add(m)
    return t


def body_E1(ctx):
    sh = ctx.shard
    it, tasks = make_tasks(ctx, sh.get("N", 3), sh.get("D", 2))
    if not tasks:
        return
    ti = ctx.choose(len(tasks), "which task")
    msgs = tasks[ti]
    n = len(msgs)
    if n > sh.get("max_msgs", 6):
        return
    # sanity of the generator: the whole task in emission order is complete
    full = fold(msgs)
    ctx.check(full.is_complete(), "the full task (program %s) is not complete", it.render())
    ctx.check(norm(actual_state(full)) == norm(ref_state(msgs)), "full task differs from the reference builder (program %s)", it.render())
    mask = [ctx.flag("in S: %d" % i) for i in range(n)]
    S = [m for m, inc in zip(msgs, mask) if inc]
    rest = [m for m, inc in zip(msgs, mask) if not inc]
    try:
        T = fold(S)
    except Exception as e:
        ctx.fail("parsing the subset %r of program %s raised %r" % ([m["task_level"] for m in S], it.render(), e))
    if S:
        ctx.check(norm(actual_state(T)) == norm(ref_state(S)), "parser state for subset %r of program %s is %r, reference builder gives %r", [m["task_level"] for m in S], it.render(), norm(actual_state(T)), norm(ref_state(S)))
        ctx.check(T.is_complete() == (len(S) == n), "subset %r of %d messages: is_complete() is %r (program %s)", [m["task_level"] for m in S], n, T.is_complete(), it.render())
        # reverse canonical order gives the same state
        ctx.check(fold(list(reversed(S))) == T, "reversed arrival order of subset %r gives a different state (program %s)", [m["task_level"] for m in S], it.render())
    if len(rest) >= 2:
        ai = ctx.choose(len(rest), "a")
        bi = ctx.choose(len(rest) - 1, "b")
        a = rest[ai]
        b = [m for j, m in enumerate(rest) if j != ai][bi]
        try:
            ab = T.add(a).add(b)
            ba = T.add(b).add(a)
        except Exception as e:
            ctx.fail("adding %r/%r after subset %r raised %r (program %s)" % (a["task_level"], b["task_level"], [m["task_level"] for m in S], e, it.render()))
        ctx.check(ab == ba, "Task.add does not commute: after subset %r, adding %r then %r differs from the other order (program %s)", [m["task_level"] for m in S], a["task_level"], b["task_level"], it.render())
        ctx.check(norm(actual_state(ab)) == norm(ref_state(S + [a, b])), "state after adding %r,%r to subset %r differs from the reference (program %s)", a["task_level"], b["task_level"], [m["task_level"] for m in S], it.render())
        if S:
            ctx.nontrivial((json.dumps(sh, sort_keys=True), tuple(ctx.trace)))
            if it.n_actions >= 2:
                ctx.reached("nested-commute")
    ctx.sample({"program": it.render(), "task_messages": [m["task_level"] for m in msgs], "S": [m["task_level"] for m in S]})


def E1() -> bool:
    """
    post: _
    """
    return run(body_E1, "X", {})


# -- E2: parse_stream over interleavings -----------------------------------------------------
def body_E2(ctx):
    sh = ctx.shard
    it, tasks = make_tasks(ctx, sh.get("N", 3), sh.get("D", 2))
    if not (2 <= len(tasks) <= 3):
        return
    total = sum(len(t) for t in tasks)
    if total > sh.get("max_msgs", 7):
        return
    drop = ctx.choose(total + 1, "dropped message (0 = none)")
    # optionally a second loss: the very first message of one task (its root's start, or the
    # whole of a one-message task) - so that several tasks can be incomplete at the end of the
    # stream, some of them without the start of their root action
    drop_first = ctx.choose(len(tasks) + 1, "task whose first message is lost as well (0 = none)") if sh.get("drop2") else 0
    lost = {}  # task index -> levels of its lost messages
    # interleave: repeatedly pick which task delivers its next message
    cursors = [0] * len(tasks)
    stream = []
    flat_index = 0
    dropped = None
    while True:
        live = [i for i, t in enumerate(tasks) if cursors[i] < len(t)]
        if not live:
            break
        i = live[ctx.choose(len(live), "next from task")]
        m = tasks[i][cursors[i]]
        cursors[i] += 1
        flat_index += 1
        if flat_index == drop or (drop_first == i + 1 and cursors[i] == 1):
            dropped = (i, m)
            lost.setdefault(i, []).append(m["task_level"])
            continue
        stream.append((i, m))
    last_index = {}
    for pos, (i, m) in enumerate(stream):
        last_index[i] = pos
    fed = []

    def gen():
        for pos, (i, m) in enumerate(stream):
            fed.append(pos)
            yield m

    yielded = []
    try:
        for t in Parser.parse_stream(gen()):
            yielded.append((len(fed) - 1, t))
    except Exception as e:
        ctx.fail("parse_stream raised %r" % (e,))
    uu = [t.root().task_uuid if isinstance(t.root(), WrittenAction) else t.root().task_uuid for _, t in yielded]
    ctx.check(len(uu) == len(set(uu)), "a task was yielded twice: %r", uu)
    present = set(i for i, _ in stream)
    ctx.check(len(yielded) == len(present), "%d tasks yielded, %d tasks had messages in the stream", len(yielded), len(present))
    for i in present:
        uuid = tasks[i][0]["task_uuid"]
        when, t = [(w, t) for (w, t) in yielded if t.root().task_uuid == uuid][0]
        whole = i not in lost
        if whole:
            ctx.check(t.is_complete(), "task %d received all its messages but is not complete", i)
            ctx.check(when == last_index[i], "complete task %d was yielded after input %d, its last message was input %d", i, when, last_index[i])
        else:
            ctx.check(not t.is_complete(), "task %d misses messages %r but is reported complete", i, lost[i])
            ctx.check(when == len(stream) - 1 and fed == list(range(len(stream))), "incomplete task %d was yielded before the stream ended", i)
    ctx.nontrivial(tuple(ctx.trace))
    if dropped is not None:
        ctx.reached("dropped")
    if len(lost) >= 2:
        ctx.reached("two-incomplete")
    ctx.sample({"program": it.render(), "stream": [(i, m["task_level"]) for i, m in stream], "dropped": sorted(lost.items())})


def E2() -> bool:
    """
    post: _
    """
    return run(body_E2, "X", {})


# -- E3: two complete sub-actions at arbitrary sibling positions of a wide, otherwise missing task -----
def body_E3(ctx):
    sh = ctx.shard
    W = sh.get("max_position", 30)
    p = 2 + ctx.choose(W - 1, "position of the first sub-action")
    q = 2 + ctx.choose(W - 1, "position of the second sub-action")
    if p == q:
        return
    u = "wide"

    def sub(pos):
        return [
            {"task_uuid": u, "task_level": [pos, 1], "timestamp": 1.0, "action_type": "s", "action_status": "started"},
            {"task_uuid": u, "task_level": [pos, 2], "timestamp": 2.0, "action_type": "s", "action_status": "succeeded"},
        ]

    msgs = sub(p) + sub(q)
    order = ctx.choose(3, "arrival order")
    seq = [msgs, msgs[2:] + msgs[:2], [msgs[0], msgs[2], msgs[3], msgs[1]]][order]
    try:
        t = fold(seq)
    except Exception as e:
        ctx.fail("parsing %r raised %r" % ([m["task_level"] for m in seq], e))
    got, exp = norm(actual_state(t)), norm(ref_state(seq))
    ctx.check(got == exp, "sub-actions at positions %d and %d arriving as %r: parser state %r, reference %r", p, q, [m["task_level"] for m in seq], got, exp)
    ctx.check(not t.is_complete(), "task with almost everything missing reported complete")
    ctx.nontrivial((p, q, order))
    if len(str(p)) != len(str(q)):
        ctx.reached("different-digit-counts")
    ctx.sample({"positions": [p, q], "order": order})


def E3() -> bool:
    """
    post: _
    """
    return run(body_E3, "X", {})


# -- E4: many tasks open at the same time ------------------------------------------------------
WIDTHS = [2, 1000, 1001, 1500]


def body_E4(ctx):
    """W tasks whose messages are interleaved so that all of them are incomplete at the same time
    (all starts first), then finished in a solver-chosen order: each task is yielded exactly once,
    complete, at the instant its last message is read - however many tasks are pending."""
    W = WIDTHS[ctx.choose(len(WIDTHS), "number of simultaneously open tasks")]
    order = ctx.choose(2, "finishing order")
    drop_end_of = ctx.choose(2, "task whose end is lost (0 = none)")

    def msg(u, level, **kw):
        d = {"task_uuid": "t%04d" % u, "task_level": level, "timestamp": float(u)}
        d.update(kw)
        return d

    stream = [msg(u, [1], action_type="app:a", action_status="started") for u in range(W)]
    idx = list(range(W))
    if order == 1:
        idx.reverse()
    elif order == 2:
        idx = idx[1::2] + idx[0::2]
    lost = None if drop_end_of == 0 else idx[0] if drop_end_of == 1 else idx[-1]
    last = {}
    for u in idx:
        stream.append(msg(u, [2], message_type="app:m"))
        if u != lost:
            stream.append(msg(u, [3], action_type="app:a", action_status="succeeded"))
        last[u] = len(stream) - 1
    fed = []

    def gen():
        for pos, m in enumerate(stream):
            fed.append(pos)
            yield m

    seen = {}
    twice = []
    try:
        for t in Parser.parse_stream(gen()):
            u = int(t.root().task_uuid[1:])
            if u in seen:
                twice.append(u)
            seen[u] = (len(fed) - 1, t.is_complete())
    except Exception as e:
        ctx.fail("parse_stream raised %r with %d open tasks" % (e, W))
    ctx.check(not twice, "with %d tasks open, %d tasks were yielded more than once (first: task %r)", W, len(twice), twice[:1])
    ctx.check(len(seen) == W, "%d tasks in the stream, %d yielded", W, len(seen))
    for u in idx:
        when, complete = seen[u]
        if u == lost:
            ctx.check(not complete and when == len(stream) - 1, "the task without an end was yielded at input %d of %d, complete=%r", when, len(stream), complete)
        else:
            ctx.check(complete, "with %d tasks open, task %d received all its messages but was yielded incomplete", W, u)
            ctx.check(when == last[u], "with %d tasks open, task %d was yielded at input %d, its last message was input %d", W, u, when, last[u])
    ctx.nontrivial((W, order, drop_end_of))
    if W > 1000:
        ctx.reached("wide")
    ctx.sample({"open_tasks": W, "finishing_order": order, "lost_end": lost})


def E4() -> bool:
    """
    post: _
    """
    return run(body_E4, "X", {})


# -- L1: the completeness rule with a symbolic end position (Mode S) ---------------------------
def body_L1(ctx, e, status_failed):
    c = ctx.shard.get("children", 2)
    ctx.assume(e >= c + 2)
    u = "u1"

    def msg(level, **kw):
        d = {"task_uuid": u, "task_level": level, "timestamp": 1.0}
        d.update(kw)
        return d

    msgs = [msg([1], action_type="a", action_status="started")]
    for i in range(c):
        msgs.append(msg([2 + i], message_type="m"))
    end = msg([e], action_type="a", action_status="failed" if status_failed else "succeeded")
    order = ctx.shard.get("order", "end-last")
    seq = msgs + [end] if order == "end-last" else [end] + msgs
    t = Task()
    for m in seq:
        t = t.add(m)
    if e == c + 2:
        ctx.check(t.is_complete(), "start + %d children + end at %d: not complete", c, c + 2)
        ctx.nontrivial(("exact", c, order))
    else:
        ctx.check(not t.is_complete(), "start + %d children + end at a later position reported complete", c)
        ctx.nontrivial(("gap", c, order))
    ctx.sample({"children": c, "end position": "symbolic >= %d" % (c + 2), "order": order})
    ctx.reached()


def L1(e: int, status_failed: bool) -> bool:
    """
    post: _
    """
    return run(body_L1, "S", dict(e=e, status_failed=status_failed))


def _e1_shards(tier):
    out = []
    cfgs = [{"N": 3, "D": 2, "max_msgs": 6}, {"N": 3, "D": 2, "max_msgs": 5, "empty_type": 1}] if tier == "quick" else [{"N": 4, "D": 3, "max_msgs": 7}, {"N": 3, "D": 2, "max_msgs": 6, "raise": 1}, {"N": 3, "D": 2, "max_msgs": 6, "empty_type": 1}]
    for base in cfgs:
        out += [dict(base, prefix=p) for p in enumerate_prefixes(body_E1, "X", {}, base, 4)]
    return out


def _e2_shards(tier):
    out = []
    for base in ([{"N": 3, "D": 2, "max_msgs": 5}, {"N": 2, "D": 1, "max_msgs": 5, "empty_type": 1}, {"N": 3, "D": 2, "max_msgs": 5, "drop2": 1}] if tier == "quick" else [{"N": 4, "D": 2, "max_msgs": 7}, {"N": 3, "D": 2, "max_msgs": 6, "empty_type": 1}, {"N": 3, "D": 2, "max_msgs": 6, "drop2": 1}]):
        out += [dict(base, prefix=p) for p in enumerate_prefixes(body_E2, "X", {}, base, 3)]
    return out


OBLIGATIONS = [
    Ob(
        "E1",
        E1,
        body_E1,
        "X",
        desc="commutation of Task.add on every reachable partial state + agreement with a reference builder + exact completeness, for every task shape/subset/pair",
        functions=["Task.add", "Task._insert_action", "Task._ensure_node_parents", "Task.is_complete", "WrittenAction._start/_end/_add_child", "WrittenMessage.from_dict"],
        shards=_e1_shards,
        twin=[{"N": 3, "D": 2, "max_msgs": 5, "twin_label": "nested-commute"}],
        timeout={"quick": 100, "thorough": 1500},
        bounds={"quick": "task shapes from programs of <= 3 ops (open/close/message/hand-off), depth <= 2, tasks of <= 6 messages (also with the default empty action type, <= 5 messages); all 2^n subsets; all ordered pairs of remaining messages", "thorough": "programs <= 4 ops, depth <= 3, tasks <= 7 messages; plus failed actions"},
    ),
    Ob(
        "E2",
        E2,
        body_E2,
        "X",
        desc="parse_stream over every interleaving of 2-3 tasks with at most one message dropped: complete tasks yielded once, exactly at their last message; incomplete ones at the end",
        functions=["Parser.parse_stream", "Parser.add", "Parser.incomplete_tasks"],
        shards=_e2_shards,
        twin=[{"N": 3, "D": 2, "max_msgs": 5, "twin_label": "dropped"}],
        timeout={"quick": 100, "thorough": 1200},
        bounds={"quick": "2-3 tasks, <= 5 messages in total, every interleaving preserving per-task order, 0 or 1 dropped message; the same with, in addition, the first message of any one task lost (two incomplete tasks, one without its root's start)", "thorough": "<= 7 messages in total (<= 6 with the second loss)"},
    ),
    Ob(
        "E3",
        E3,
        body_E3,
        "X",
        desc="subset of a wide task: two complete sub-actions at any two sibling positions in 2..30, three arrival orders: state equals the reference (both marked complete, parent incomplete)",
        functions=["Task.add", "Task._insert_action"],
        shards=lambda tier: [dict({"max_position": 30 if tier == "quick" else 120}, prefix=[i]) for i in range((30 if tier == "quick" else 120) - 1)] if tier != "quick" else [{"max_position": 30, "prefix": [i]} for i in range(29)],
        twin=[{"max_position": 30, "twin_label": "different-digit-counts"}],
        timeout={"quick": 100, "thorough": 600},
        bounds={"quick": "positions 2..30 x 2..30, 3 arrival orders", "thorough": "positions 2..120"},
    ),
    Ob(
        "L1",
        L1,
        body_L1,
        "S",
        desc="an action with start, c messages and an end at position e is complete iff e == c+2, for every integer e >= c+2",
        functions=["Task._insert_action", "Task.add"],
        shards={"quick": [{"children": c, "order": o} for c in (0, 1, 2, 3) for o in ("end-last", "end-first")]},
        twin=[{"children": 2, "order": "end-last"}],
        timeout={"quick": 150, "thorough": 400},
        path_timeout=60,
        bounds={"quick": "c in 0..3 concrete children, end position any integer >= c+2, end arriving last or first"},
    ),
    Ob(
        "E4",
        E4,
        body_E4,
        "X",
        desc="many tasks incomplete at the same time: each is yielded once, complete, at its last message",
        functions=["Parser.parse_stream", "Parser.add", "Task.add"],
        twin=[{"twin_label": "wide"}],
        timeout={"quick": 100, "thorough": 300},
        bounds={"quick": "2, 1000, 1001 or 1500 three-message tasks all started before any ends; finished in start order or reverse order; optionally the end message of the first finisher lost"},
    ),
]
