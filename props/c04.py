"""C04 - the current action is scoped to its block and always restored on exit."""

import json

from engine.core import run, enumerate_prefixes
from engine.ob import Ob
from engine import interp as I

from eliot import _output, start_action, start_task, log_message, current_action

PROPERTY = "C04"
NONTRIVIAL_RULE = (
    "Leaves are whole scoping programs (decision vectors); non-trivial when nesting depth >= 2 was reached "
    "together with an exceptional exit, a re-entry or an early generator close; keyed by decision vector."
)
EXPLANATION = (
    "Solver-enumerated nestings of with-action / action.context() / action.run(f) / re-entry of an enclosing "
    "action / generator bodies closed early / finish() of the current action inside its own block, each level left normally or by an exception caught j levels out; "
    "current_action() is compared (object identity) with a reference stack after every entry, exit and logging "
    "call, and the task_uuid/task_level of everything logged is compared with the action that was current."
)
ASSUMPTIONS = ["single thread; uuid4/time stubs"]


class Boom(Exception):
    pass


class Scoping(object):
    def __init__(self, ctx, received, max_ops, max_depth):
        self.ctx = ctx
        self.received = received
        self.budget = max_ops
        self.max_depth = max_depth
        self.stack = []  # reference stack of actions that should be current (top = current)
        self.all_actions = []
        self.ops = []
        self.in_flight = None
        self.flags = set()
        self.maxdepth_seen = 0
        self.n = 0
        # actions created early and entered (once) later, possibly under another current action
        self.pre = []
        self.finished = []  # actions whose end message is already logged

    def top(self):
        return self.stack[-1] if self.stack else None

    def expect(self, what):
        got = current_action()
        self.ctx.check(got is self.top(), "%s: current_action() is %r, expected %r (program %s)", what, got, self.top(), " ".join(self.ops))

    def check_child_of(self, msg, parent, what):
        """msg (a dict just emitted) must be placed directly inside ``parent`` (or be a new tree)."""
        lvl = msg["task_level"]
        if parent is None:
            self.ctx.check(lvl[:-1] == [] or lvl == [1], "%s: logged with no current action but placed at %r", what, lvl)
            others = [m for m in self.received if m is not msg and m["task_uuid"] == msg["task_uuid"] and not self._same_tree(m, msg)]
        else:
            self.ctx.check(msg["task_uuid"] == parent.task_uuid, "%s: uuid %r differs from the current action's %r (program %s)", what, msg["task_uuid"], parent.task_uuid, " ".join(self.ops))
            self.ctx.check(lvl[:-1] == parent._task_level.as_list(), "%s: placed at %r, current action is at %r (program %s)", what, lvl, parent._task_level.as_list(), " ".join(self.ops))

    def _same_tree(self, a, b):
        return True

    def new_action(self, what):
        n0 = len(self.received)
        parent = self.top()
        self.n += 1
        a = start_action(action_type="t:a%d" % self.n)
        self.all_actions.append(a)
        self.ctx.check(len(self.received) == n0 + 1, "%s: start_action emitted %d messages", what, len(self.received) - n0)
        m = self.received[-1]
        if parent is None:
            self.ctx.check(m["task_level"] == [1], "%s: top-level action start at %r", what, m["task_level"])
            self.ctx.check(all(m["task_uuid"] != x.task_uuid for x in self.all_actions[:-1]), "%s: top-level action reuses a task uuid", what)
        else:
            self.ctx.check(m["task_uuid"] == parent.task_uuid and m["task_level"][:-2] == parent._task_level.as_list() and m["task_level"][-1] == 1, "%s: child action start at %r/%r, parent %r/%r (program %s)", what, m["task_uuid"], m["task_level"], parent.task_uuid, parent._task_level.as_list(), " ".join(self.ops))
        return a

    def block(self, depth):
        ctx = self.ctx
        self.maxdepth_seen = max(self.maxdepth_seen, depth)
        while self.budget > 0:
            ops = ["exit", "msg", "task"]
            full = self.ctx.shard.get("ops", "all") == "all"
            if depth < self.max_depth:
                ops += ["with", "ctx", "run", "gen"]
                if self.stack:
                    ops += ["re-ctx", "re-run"]
                if full and self.pre:
                    ops += ["with-pre", "ctx-pre"]
                if full and self.finished:
                    ops += ["ctx-finished", "run-finished"]
            if full and len(self.all_actions) < 6:
                ops.append("make")
            if full and self.stack and self.top() not in self.finished:
                ops.append("finish-in")
            for j in range(1, depth + 1):
                ops.append(("raise", j))
            op = ops[ctx.choose(len(ops), "op@%d" % depth)]
            if op == "exit":
                self.ops.append(")")
                return
            self.budget -= 1
            if isinstance(op, tuple):
                e = Boom("b%d" % self.budget)
                self.in_flight = (e, op[1])
                self.ops.append("raise%d" % op[1])
                if depth >= 2:
                    self.flags.add("inner-raise")
                raise e
            self.ops.append(op + ("(" if op not in ("msg", "task", "make", "finish-in") else ""))
            if op == "finish-in":
                # the current action is finished explicitly inside its own block: it stays current until the block is left
                a = self.top()
                a.finish()
                self.finished.append(a)
                self.flags.add("finished-inside")
                self.expect("after finish() of the current action inside its own block")
                continue
            if self.ctx.shard.get("interrupt") and op in ("msg", "task", "make"):
                try:
                    self.simple_op(op)
                except KeyboardInterrupt:
                    self.ops.append("^C")
                    self.flags.add("interrupted")
                    self.expect("after a KeyboardInterrupt came out of a logging call")
                continue
            if op == "make":
                # create an action here (it becomes a child of the current one) but enter it later
                a = self.new_action("make")
                self.pre.append(a)
                self.expect("after creating an action without entering it")
                self.flags.add("pre-created")
            elif op == "msg":
                n0 = len(self.received)
                log_message("t:m", i=self.budget)
                ctx.check(len(self.received) == n0 + 1, "log_message emitted %d messages", len(self.received) - n0)
                m = self.received[-1]
                if self.top() is None:
                    ctx.check(m["task_level"] == [1], "context-less message at %r", m["task_level"])
                    ctx.check(sum(1 for x in self.received if x["task_uuid"] == m["task_uuid"]) == 1, "context-less message shares its uuid with another message")
                else:
                    self.check_child_of(m, self.top(), "message")
                self.expect("after log_message")
            elif op == "task":
                n0 = len(self.received)
                t = start_task(action_type="t:task")
                m = self.received[-1]
                ctx.check(len(self.received) == n0 + 1 and m["task_level"] == [1], "start_task start message at %r", m["task_level"])
                ctx.check(sum(1 for x in self.received if x["task_uuid"] == m["task_uuid"]) == 1, "start_task reused a task uuid (program %s)", " ".join(self.ops))
                self.expect("after start_task (not entered)")
                t.finish()
                self.expect("after finishing the un-entered task")
            else:
                try:
                    self.scoped(op, depth + 1)
                except KeyboardInterrupt:
                    # arrived while the action was being started (before entry) or finished explicitly
                    self.ops.append("^C")
                    self.flags.add("interrupted")
                    self.expect("after a KeyboardInterrupt came out of starting/finishing an action")

    def simple_op(self, op):
        if op == "msg":
            log_message("t:m", i=self.budget)
        elif op == "task":
            start_task(action_type="t:task").finish()
        else:
            self.pre.append(start_action(action_type="t:made"))

    def scoped(self, op, depth):
        ctx = self.ctx
        before = current_action()
        ctx.check(before is self.top(), "before entry: current_action() is %r, expected %r", before, self.top())
        if op in ("re-ctx", "re-run"):
            a = self.stack[ctx.choose(len(self.stack), "which enclosing action")]
            self.flags.add("reentry")
            fresh = False
        elif op in ("ctx-finished", "run-finished"):
            a = self.finished[ctx.choose(len(self.finished), "which finished action")]
            self.flags.add("finished-reentry")
            fresh = False
            op = "ctx" if op == "ctx-finished" else "run"
        elif op in ("with-pre", "ctx-pre"):
            a = self.pre.pop(ctx.choose(len(self.pre), "which pre-created action"))
            self.flags.add("entered-elsewhere")
            fresh = op == "ctx-pre"
            op = "with" if op == "with-pre" else "ctx"
        else:
            a = self.new_action(op)
            fresh = True
        err = None
        try:
            if op == "with":
                with a as entered:
                    ctx.check(entered is a, "__enter__ returned %r", entered)
                    self.inside(a, depth)
            elif op in ("ctx", "re-ctx"):
                with a.context() as entered:
                    ctx.check(entered is a, "context() yielded %r", entered)
                    self.inside(a, depth)
            elif op in ("run", "re-run"):
                marker = object()

                def f(x, y=None):
                    self.inside(a, depth)
                    return marker

                ctx.check(a.run(f, 1, y=2) is marker, "run() lost the return value")
            elif op == "gen":
                self.flags.add("gen")

                def body():
                    with a:
                        yield 1
                        yield 2

                g = body()
                ctx.check(next(g) == 1, "generator value")
                # a plain generator shares the driver's context: its action is now current
                try:
                    self.inside(a, depth)
                finally:
                    g.close()  # GeneratorExit raised at the yield, inside the with block
        except Boom as e:
            if self.in_flight is None or e is not self.in_flight[0]:
                raise
            err = e
        except KeyboardInterrupt:
            # arrived during a logging call made on entry or exit of the block
            self.ops.append("^C")
            self.flags.add("interrupted")
            got = current_action()
            ctx.check(got is before, "a KeyboardInterrupt during %s(%s) left current_action() at %r, expected what it was before entry: %r (program %s)", op, "entry/exit logging", got, before, " ".join(self.ops))
            if self.in_flight is not None:
                self.in_flight = None
            return
        got = current_action()
        ctx.check(got is before, "after leaving %s(%s) by %s: current_action() is %r, expected what it was before entry: %r (program %s)", op, a._identification["action_type"], "exception" if err else "normal exit", got, before, " ".join(self.ops))
        if fresh and op in ("ctx", "run"):
            a.finish(err)
            self.expect("after explicit finish")
        if (fresh or op == "with") and a not in self.finished:
            self.finished.append(a)
        if err is not None:
            self.ops.append(")!")
            exc, j = self.in_flight
            if j > 1:
                self.in_flight = (exc, j - 1)
                raise err
            self.in_flight = None

    def inside(self, a, depth):
        self.stack.append(a)
        try:
            self.expect("inside the block")
            self.block(depth)
            self.expect("at the end of the block")
        finally:
            self.stack.pop()


class Interrupting(object):
    """A destination on which a KeyboardInterrupt (Ctrl-C) arrives during one solver-chosen call."""

    def __init__(self, ctx, received, enabled):
        self.ctx = ctx
        self.received = received
        self.left = 1 if enabled else 0

    def __call__(self, m):
        self.received.append(m)
        if self.left and self.ctx.flag("KeyboardInterrupt during this delivery"):
            self.left = 0
            raise KeyboardInterrupt()


def body_E1(ctx):
    sh = ctx.shard
    received = []
    _output.Logger._destinations.add(Interrupting(ctx, received, sh.get("interrupt")))
    sc = Scoping(ctx, received, sh.get("N", 5), sh.get("D", 3))
    sc.block(0)
    ctx.check(current_action() is None, "after the whole program current_action() is %r", current_action())
    if sc.maxdepth_seen >= 2 and sc.flags:
        ctx.nontrivial(tuple(ctx.trace))
    if "inner-raise" in sc.flags:
        ctx.reached("inner-raise")
    ctx.sample({"program": " ".join(sc.ops), "messages": len(received)})


def E1() -> bool:
    """
    post: _
    """
    return run(body_E1, "X", {})


def _shards(tier):
    cfgs = [{"N": 4, "D": 3, "ops": "core"}, {"N": 3, "D": 3, "ops": "all"}, {"N": 3, "D": 3, "ops": "core", "interrupt": 1}] if tier == "quick" else [{"N": 5, "D": 4, "ops": "core"}, {"N": 4, "D": 3, "ops": "all"}, {"N": 4, "D": 3, "ops": "core", "interrupt": 1}]
    out = []
    for s in cfgs:
        out += [dict(s, prefix=p) for p in enumerate_prefixes(body_E1, "X", {}, s, 2 if tier == "quick" else 3)]
    return out


OBLIGATIONS = [
    Ob(
        "E1",
        E1,
        body_E1,
        "X",
        desc="all nestings of with/context()/run()/re-entry/generator-close/start_task/log_message: current_action() tracks a reference stack; placement of logged items follows the current action",
        functions=["Action.__enter__", "Action.__exit__", "Action.context", "Action.run", "current_action", "start_action", "start_task", "log_message", "Action.child"],
        shards=_shards,
        twin=[{"N": 4, "D": 3, "ops": "core", "twin_label": "inner-raise"}],
        timeout={"quick": 100, "thorough": 1200},
        bounds={"quick": "<= 3 ops (core) with a KeyboardInterrupt arriving inside one solver-chosen message delivery; <= 4 ops with the core op set (no pre-created / finished actions) and <= 3 ops with all ops, depth <= 3; ops: with / context() / run() on a new action, with/context() on an action created earlier under another current action, context()/run() of an action that has already finished, context()/run() re-entering any enclosing action, generator body closed early, start_task, log_message, exit, raise caught j levels out", "thorough": "<= 5 ops (core) / <= 4 ops (all), depth <= 4; <= 4 ops (core) with the interrupting destination"},
    ),
]
