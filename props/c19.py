"""C19 - the threaded writer passes every message to its destination in order, off-thread."""

import json
import sys
import threading
import types

from engine.core import run, enumerate_prefixes, HarnessLimit
from engine.ob import Ob
from engine.sched import Sched, SchedQueue, SchedThread, Deadlock

# -- Twisted is not installed: stub exactly the two things logwriter.py imports -------------------
_CURRENT_SCHED = [None]


class _Service(object):
    """twisted.application.service.Service, reduced to its documented start/stop contract."""

    running = 0
    name = None

    def startService(self):
        self.running = 1

    def stopService(self):
        self.running = 0


class _Handle(object):
    """Stands for the Deferred returned by deferToThreadPool: fires when f has returned."""

    def __init__(self):
        self.done = False
        self.result = None
        self.error = None


def _deferToThreadPool(reactor, pool, f, *a, **kw):
    """Runs f on another (scheduler-controlled) thread and returns a completion handle."""
    h = _Handle()

    def runner():
        try:
            h.result = f(*a, **kw)
        except BaseException as e:  # noqa
            h.error = e
        h.done = True

    t = SchedThread(_CURRENT_SCHED[0], target=runner, name="pool")
    t.start()
    h.thread = t
    return h


if "twisted" not in sys.modules:
    try:
        import twisted  # noqa
    except ImportError:
        tw = types.ModuleType("twisted")
        app = types.ModuleType("twisted.application")
        svc = types.ModuleType("twisted.application.service")
        svc.Service = _Service
        inet = types.ModuleType("twisted.internet")
        thr = types.ModuleType("twisted.internet.threads")
        thr.deferToThreadPool = _deferToThreadPool
        tw.application, tw.internet, app.service, inet.threads = app, inet, svc, thr
        sys.modules.update({"twisted": tw, "twisted.application": app, "twisted.application.service": svc, "twisted.internet": inet, "twisted.internet.threads": thr})
        STUBBED = True
else:
    STUBBED = False

class LazyQueue(object):
    """Stands for queue.SimpleQueue / queue.Queue(maxsize) wherever logwriter.py creates one (at
    import, in a default argument, in __init__ ...): a cooperative FIFO bound to whatever scheduler
    is current when it is used, recording who put what; with a positive maxsize put() blocks while
    the queue is full, as queue.Queue does.  All instances are emptied between paths."""

    instances = []
    log = None  # the current path's event log

    def __init__(self, maxsize=0, *a, **kw):
        self.items = []
        self.maxsize = maxsize if isinstance(maxsize, int) else 0
        self.putters = set()
        LazyQueue.instances.append(self)

    def full(self):
        return self.maxsize > 0 and len(self.items) >= self.maxsize

    def would_block(self, worker):
        if worker in self.putters:
            return self.full()
        return not self.items

    def put(self, item, block=True, timeout=None):
        from engine.sched import Deadlock, _Kill

        sched = _CURRENT_SCHED[0]
        w = sched.me() if sched is not None else None
        while self.full():
            if not block:
                raise _queue_module.Full()
            if LazyQueue.log is not None and isinstance(item, dict):
                LazyQueue.log.append(("put-blocked", item["id"], w.name if w else None))
            if w is None:
                raise Deadlock("scheduler thread would block on a full queue")
            if sched.abort:
                raise _Kill()
            self.putters.add(w)
            w.blocked_on = self
            w.pause("blocked on full queue")
        if w is not None:
            self.putters.discard(w)
            w.blocked_on = None
        if isinstance(item, dict) and LazyQueue.log is not None:
            LazyQueue.log.append(("put", item["id"]))
        self.items.append(item)

    def put_nowait(self, item):
        return self.put(item, block=False)

    def get_nowait(self):
        if not self.items:
            raise _queue_module.Empty()
        return self.items.pop(0)

    def task_done(self):
        pass

    def get(self, block=True, timeout=None):
        from engine.sched import Deadlock, _Kill

        sched = _CURRENT_SCHED[0]
        w = sched.me() if sched is not None else None
        while True:
            if self.items:
                if w is not None:
                    w.blocked_on = None
                return self.items.pop(0)
            if w is None:
                raise Deadlock("scheduler thread would block on an empty queue")
            if sched.abort:
                raise _Kill()
            w.blocked_on = self
            w.pause("blocked on queue")

    def empty(self):
        return not self.items

    def qsize(self):
        return len(self.items)


import queue as _queue_module  # noqa: E402

_real_queues = {n: getattr(_queue_module, n) for n in ("SimpleQueue", "Queue")}
for _n in _real_queues:
    setattr(_queue_module, _n, LazyQueue)
try:
    import eliot  # noqa: E402
    from eliot import logwriter  # noqa: E402
    from eliot.logwriter import ThreadedWriter  # noqa: E402
finally:
    for _n, _v in _real_queues.items():
        setattr(_queue_module, _n, _v)
for _n in _real_queues:
    if hasattr(logwriter, _n):
        setattr(logwriter, _n, LazyQueue)

PROPERTY = "C19"
NONTRIVIAL_RULE = (
    "A leaf is one schedule of producers / reader / stop request (decision vector) with a failure mask of the wrapped "
    "destination; non-trivial when the stop request or a producer was interleaved with the reader; keyed by (shard, decision vector)."
)
EXPLANATION = (
    "The real eliot/logwriter.py runs on stubbed Twisted primitives (Service start/stop flags; deferToThreadPool = run on "
    "another scheduler-controlled thread, return a completion handle) with threading.Thread / SimpleQueue replaced by "
    "cooperative equivalents; producers, the reader and the stop request are interleaved at every source line of "
    "logwriter.py. Oracle over *returned* calls: every message whose writer(msg) call returned before stopService() was "
    "entered is passed exactly once to the wrapped destination before the stop handle completes; overlapping ones at most "
    "once; order of passing = order of enqueueing; always on the reader thread; a raising destination loses only that "
    "message; the reader has terminated when the handle completes; no deadlock."
)
ASSUMPTIONS = [
    "Twisted is absent: Service.startService/stopService only flip 'running'; deferToThreadPool(reactor, pool, f) runs f on another thread and returns a handle that completes when f returns (documented contracts, not checked against Twisted)",
    "queue.SimpleQueue is an unbounded thread-safe FIFO: every SimpleQueue() created by logwriter.py (at import time or later) is a cooperative LazyQueue; threading.Thread start/join contract (SchedThread)",
    "threads interleave between source lines of eliot/logwriter.py",
    "the wrapped destination may be arbitrarily slow: a wait with a timeout (Thread.join(t)) on a thread that has not finished times out",
]

LW_FILE = logwriter.__file__


class Boom(Exception):
    pass


class RecQueue(SchedQueue):
    def __init__(self, sched, log):
        SchedQueue.__init__(self, sched)
        self.log = log

    def put(self, item, block=True, timeout=None):
        if isinstance(item, dict):
            self.log.append(("put", item["id"]))
        SchedQueue.put(self, item)


def body_E1(ctx):
    sh = ctx.shard
    sched = Sched(ctx, watch={LW_FILE: None}, preemptions=sh.get("P", 2))
    sched.timeouts_expire = True  # the wrapped destination may be arbitrarily slow: any bounded wait can time out
    _CURRENT_SCHED[0] = sched
    log = []  # totally ordered event log (only one thread runs at a time)
    nprod = sh.get("producers", 1)
    nmsg = sh.get("msgs", 2)
    cycles = 1 + (ctx.choose(2, "second start/stop cycle") if sh.get("cycles", 1) > 1 else 0)
    # the failure mask of the wrapped destination is drawn up front, on the analysing thread
    # (solver decisions cannot be taken on worker threads): which messages it will raise on
    fails_left = sh.get("F", 1)
    failing = set()
    for cycle in range(cycles):
        for p in range(max(nprod, 1)):
            for i in range(nmsg):
                if fails_left > 0 and ctx.flag("destination fails on c%d-p%d-m%d" % (cycle, p, i)):
                    fails_left -= 1
                    failing.add("c%d-p%d-m%d" % (cycle, p, i))

    def wrapped(msg):
        me = sched.me()
        log.append(("written", msg["id"], me.name if me else "scheduler-thread"))
        if msg["id"] in failing:
            log.append(("dest-raised", msg["id"]))
            raise Boom(msg["id"])

    class Reactor(object):
        def getThreadPool(self):
            return "pool"

    class NS(object):  # stands for the ``threading`` module object logwriter uses
        @staticmethod
        def Thread(target=None, **kw):
            return SchedThread(sched, target=target, name="reader")

    saved_threading = logwriter.threading
    logwriter.threading = NS
    handles = []
    for q in LazyQueue.instances:
        del q.items[:]
    LazyQueue.log = log
    other_got = []
    try:
        writer = ThreadedWriter(wrapped, Reactor())
        second = None
        if sh.get("writers", 1) == 2:
            # a second, idle writer service running at the same time: it must see none of the first one's messages
            second = ThreadedWriter(lambda m: other_got.append(m["id"]), Reactor())
        if getattr(writer, "_queue", None) is not None and not isinstance(writer._queue, LazyQueue):
            raise HarnessLimit("ThreadedWriter uses a queue of type %s that the scheduler cannot control" % type(writer._queue).__name__)

        def producer(p, cycle):
            def work():
                for i in range(nmsg):
                    mid = "c%d-p%d-m%d" % (cycle, p, i)
                    writer({"id": mid})
                    log.append(("returned", mid))

            return work

        def main():
            if second is not None:
                second.startService()
            for cycle in range(cycles):
                writer.startService()
                log.append(("started", cycle))
                prods = [SchedThread(sched, target=producer(p, cycle), name="P%d" % p) for p in range(nprod)]
                if nprod == 0:
                    producer(0, cycle)()  # the main thread offers the messages itself
                for t in prods:
                    t.start()
                    sched.yield_point("main: producer started")
                sched.yield_point("main: before stop")
                if sh.get("join_producers_first", 0) or cycles > 1:
                    for t in prods:
                        t.join()
                log.append(("stop-entered", cycle))
                h = writer.stopService()
                handles.append(h)
                log.append(("stop-returned", cycle))
                h.thread.join()
                log.append(("stop-completed", cycle, h.done, writer._thread.is_alive()))
                for t in prods:
                    t.join()
            if second is not None:
                h2 = second.stopService()
                h2.thread.join()
                log.append(("second-stopped", h2.done))

        sched.spawn(main, "main")
        try:
            sched.run()
        except Deadlock as e:
            ctx.fail("%s; events %r" % (e, log[-12:]))
    finally:
        logwriter.threading = saved_threading
        _CURRENT_SCHED[0] = None
    for w in sched.workers:
        ctx.check(w.exc is None, "thread %s died with %r (events %r)", w.name, w.exc, log[-10:])
    # ---- oracle over the event log -------------------------------------------------------------
    written = [e[1] for e in log if e[0] == "written"]
    ctx.check(len(written) == len(set(written)), "a message was passed to the destination twice: %r", written)
    for e in log:
        if e[0] == "written":
            ctx.check(e[2] == "reader", "destination called on thread %r instead of the reader thread (events %r)", e[2], log)
    puts = [e[1] for e in log if e[0] == "put"]
    ctx.check(written == [p for p in puts if p in set(written)], "messages passed on in order %r, they were enqueued in order %r", written, puts)
    for cycle in range(cycles):
        idx = {name: i for i, name in enumerate(e[0] + str(e[1]) for e in log if e[0] in ("stop-entered", "stop-completed"))}
        pos_entered = next(i for i, e in enumerate(log) if e[0] == "stop-entered" and e[1] == cycle)
        pos_completed = next(i for i, e in enumerate(log) if e[0] == "stop-completed" and e[1] == cycle)
        done_flag, reader_alive = log[pos_completed][2], log[pos_completed][3]
        ctx.check(done_flag and not reader_alive, "stop handle completed=%r while the reader thread alive=%r", done_flag, reader_alive)
        must = [e[1] for e in log[:pos_entered] if e[0] == "returned" and e[1].startswith("c%d-" % cycle)]
        before_completion = [e[1] for e in log[:pos_completed] if e[0] == "written"]
        for mid in must:
            ctx.check(mid in before_completion, "message %s was offered (call returned) before stopService() but had not been passed to the destination when stopService completed; events %r", mid, [x for x in log if x[0] != "put"])
    ctx.check(other_got == [], "a second, idle ThreadedWriter received the messages %r that were offered to the first one", other_got)
    nfail = sum(1 for e in log if e[0] == "dest-raised")
    interleaved = sched.switches >= 4
    if interleaved or nfail:
        ctx.nontrivial((json.dumps(sh, sort_keys=True), tuple(ctx.trace)))
    if nfail and len(written) > nfail:
        ctx.reached("failure-then-more")
    if any(e[0] == "returned" for e in log[: next(i for i, e in enumerate(log) if e[0] == "stop-entered")]):
        ctx.reached("offered-before-stop")
    ctx.sample({"events": [e[:2] for e in log if e[0] != "put"][:24], "switches": sched.switches})


def E1() -> bool:
    """
    post: _
    """
    return run(body_E1, "X", {})


# -- E2: a burst of messages while the wrapped destination is stalled ------------------------------
BURSTS = [1, 2, 100, 1000, 1001, 2500, 6000]


def body_E2(ctx):
    """'so logging does not block on slow output': while the wrapped destination is stuck inside a
    write, any number of further writer(msg) calls return without waiting for it, and once the
    destination moves again everything is written in order before stopService completes."""
    from engine.sched import SchedLock

    sh = ctx.shard
    sched = Sched(ctx, watch={LW_FILE: None}, preemptions=0, granularity="call", max_steps=200000)
    sched.timeouts_expire = True
    _CURRENT_SCHED[0] = sched
    log = []
    K = BURSTS[ctx.choose(len(BURSTS), "burst size")]
    stall_at = ctx.choose(3, "the destination stalls on its n-th message")
    fails = ctx.flag("the stalled write finally raises")
    # a run of consecutive failures at the start of the burst: each loses only its own message
    nfail = [0, 10, 40][ctx.choose(3, "consecutive failing writes")] if K >= 100 else 0
    gate = SchedLock(sched)
    stalled = SchedQueue(sched)

    def wrapped(msg):
        me = sched.me()
        log.append(("written", msg["id"], me.name if me else "scheduler-thread"))
        if msg["id"] == stall_at:
            stalled.put(1)
            gate.acquire()  # slow output: stuck until the main thread opens the gate
            gate.release()
            if fails:
                raise Boom(msg["id"])
        elif stall_at < msg["id"] <= stall_at + nfail:
            raise Boom(msg["id"])

    class Reactor(object):
        def getThreadPool(self):
            return "pool"

    class NS(object):
        @staticmethod
        def Thread(target=None, **kw):
            return SchedThread(sched, target=target, name="reader")

    saved_threading = logwriter.threading
    logwriter.threading = NS
    for q in LazyQueue.instances:
        del q.items[:]
        q.putters.clear()
    LazyQueue.log = log
    state = {}
    try:
        writer = ThreadedWriter(wrapped, Reactor())
        if getattr(writer, "_queue", None) is not None and not isinstance(writer._queue, LazyQueue):
            raise HarnessLimit("ThreadedWriter uses a queue of type %s that the scheduler cannot control" % type(writer._queue).__name__)

        def main():
            gate.acquire()
            writer.startService()
            for i in range(stall_at + 1):
                writer({"id": i})
            stalled.get()  # the reader is now inside the stuck write
            state["phase"] = "burst"
            for i in range(stall_at + 1, stall_at + 1 + K):
                writer({"id": i})
                state["returned"] = i
            state["phase"] = "burst-done"
            gate.release()
            h = writer.stopService()
            h.thread.join()
            state["stopped"] = (h.done, writer._thread.is_alive())

        sched.spawn(main, "main")
        try:
            sched.run()
        except Deadlock as e:
            if state.get("phase") == "burst":
                ctx.fail("logging blocked on slow output: with the destination stuck in a write, call number %d of a burst of %d writer(msg) calls did not return (%s)" % (state.get("returned", stall_at) - stall_at + 1, K, e))
            ctx.fail("%s; events %r" % (e, log[-12:]))
    finally:
        logwriter.threading = saved_threading
        _CURRENT_SCHED[0] = None
    for w in sched.workers:
        ctx.check(w.exc is None, "thread %s died with %r", w.name, w.exc)
    blocked = [e for e in log if e[0] == "put-blocked"]
    ctx.check(not blocked, "a writer(msg) call waited for the slow destination: %r", blocked[:3])
    written = [e[1] for e in log if e[0] == "written"]
    ctx.check(written == list(range(stall_at + 1 + K)), "after a burst of %d messages behind a stalled write the destination got %d messages, first difference at %r", K, len(written), next((i for i, (a, b) in enumerate(zip(written, range(stall_at + 1 + K))) if a != b), min(len(written), stall_at + 1 + K)))
    ctx.check(all(e[2] == "reader" for e in log if e[0] == "written"), "destination called off the reader thread")
    ctx.check(state.get("stopped") == (True, False), "stop handle / reader state after the burst: %r", state.get("stopped"))
    ctx.nontrivial((K, stall_at, fails, nfail))
    if K > 1000:
        ctx.reached("large-burst")
    ctx.sample({"burst": K, "stall_at": stall_at, "stalled_write_raises": fails, "consecutive_failures": nfail, "written": len(written)})


def E2() -> bool:
    """
    post: _
    """
    return run(body_E2, "X", {})


def _shards(tier):
    # (config, prefix depth): deeper prefixes where a single shard would exceed its time budget
    if tier == "quick":
        cfgs = [({"producers": 1, "msgs": 2, "P": 2, "F": 1}, 6), ({"producers": 0, "msgs": 2, "P": 1, "F": 0, "writers": 2}, 9), ({"producers": 0, "msgs": 1, "P": 1, "F": 1, "cycles": 2}, 4)]
    else:
        cfgs = [({"producers": 1, "msgs": 2, "P": 3, "F": 2}, 6), ({"producers": 2, "msgs": 1, "P": 2, "F": 1}, 6), ({"producers": 1, "msgs": 1, "P": 2, "F": 1, "cycles": 2}, 9), ({"producers": 0, "msgs": 2, "P": 2, "F": 0, "writers": 2}, 10)]
    out = []
    for base, depth in cfgs:
        out += [dict(base, prefix=p) for p in enumerate_prefixes(body_E1, "X", {}, base, depth)]
    return out


OBLIGATIONS_TAIL = [
    Ob("E2", E2, body_E2, "X", desc="a burst of writer(msg) calls while the wrapped destination is stuck inside a write: every call returns, nothing is lost or reordered", functions=["ThreadedWriter.__call__", "_reader", "stopService"],
       shards=lambda tier: [{"prefix": q} for q in enumerate_prefixes(body_E2, "X", {}, {}, 1)], twin=[{"twin_label": "large-burst"}], timeout={"quick": 100, "thorough": 300},
       bounds={"quick": "burst sizes {1, 2, 100, 1000, 1001, 2500, 6000} behind a write stalled on the 1st/2nd/3rd message, which then returns or raises; for bursts >= 100 the first 0, 10 or 40 writes of the burst raise; forced switches only (call granularity)"}),
]

OBLIGATIONS = [
    Ob("E1", E1, body_E1, "X", desc="producers / reader / stop request at line granularity in logwriter.py with destination failure masks", functions=["ThreadedWriter.__init__", "startService", "stopService", "__call__", "_reader"],
       shards=_shards, twin=[{"producers": 1, "msgs": 2, "P": 2, "F": 1, "twin_label": "failure-then-more"}, {"producers": 1, "msgs": 2, "P": 2, "F": 1, "twin_label": "offered-before-stop"}], timeout={"quick": 100, "thorough": 1500},
       bounds={"quick": "1 producer x 2 messages racing the stop request and the reader, <= 2 preemptions, <= 1 destination failure; the main thread offering 2 messages with a second idle ThreadedWriter running (<= 1 preemption); one or two start/stop cycles of the same writer with 1 message each (<= 1 preemption, <= 1 failure)", "thorough": "<= 3 preemptions / 2 failures; 2 producers x 1 message; a second start/stop cycle with a producer thread (<= 2 preemptions); second writer with <= 2 preemptions"}),
]
OBLIGATIONS += OBLIGATIONS_TAIL
