"""C03 - each action logs exactly one start and one truthful end; errors pass through."""

import json

from engine.core import run, enumerate_prefixes
from engine.ob import Ob
from engine import interp as I
from props.c01 import check_forest

from eliot import _output, start_action
from eliot.parse import Parser

PROPERTY = "C03"
NONTRIVIAL_RULE = (
    "E1 leaves are whole programs; non-trivial when at least one action failed or an extra finish was issued; "
    "keyed by (shard profile, decision vector). L1 leaves keyed by decision vector."
)
EXPLANATION = (
    "Every body outcome at every nesting level (normal, raise caught j levels out) under 10 exception classes (incl. one whose str() raises a non-Exception BaseException and one with multiple inheritance) "
    "incl. BaseException subclasses, 27 extractor registrations along a 3-class MRO (absent/dict/raising) and "
    "repeated finish calls; oracle: exactly one start and one end per action, status failed iff an exception "
    "escaped, exception/reason/extractor fields, identity of the propagated exception, fields on the right message."
)
ASSUMPTIONS = ["uuid4/time stubs as in C01"]


def body_E1(ctx):
    sh = ctx.shard
    received = []
    _output.Logger._destinations.add(received.append)
    it = I.Interp(ctx, sh.get("N", 5), sh.get("D", 3), allow_msg=bool(sh.get("msgs", 0)))
    it.run()
    # exactly one start / one end per action, counted on the raw stream
    per = {}
    for m in received:
        if "action_type" in m:
            k = (m["task_uuid"], tuple(m["task_level"][:-1]))
            d = per.setdefault(k, {"started": 0, "ended": 0})
            if m["action_status"] == "started":
                d["started"] += 1
            else:
                d["ended"] += 1
    ctx.check(len(per) == it.n_actions, "program %s ran %d actions, the stream shows %d", it.render(), it.n_actions, len(per))
    for k, d in per.items():
        ctx.check(d["started"] == 1 and d["ended"] == 1, "action %r has %d start and %d end messages (program %s)", k, d["started"], d["ended"], it.render())
    # status / exception / reason / extractor fields / field placement: exact comparison with the reference
    check_forest(ctx, it, received)
    if it.n_failed or sh.get("fin"):
        ctx.nontrivial((json.dumps(sh, sort_keys=True), tuple(ctx.trace)))
    if it.n_failed >= 2:
        ctx.reached("two-failed")
    ctx.sample({"program": it.render(), "reference": it.render_forest(), "profile": sh})


def E1() -> bool:
    """
    post: _
    """
    return run(body_E1, "X", {})


def _e1_shards(tier):
    N, D = (4, 3) if tier == "quick" else (6, 4)
    profiles = [{}]
    profiles += [{"exc": i} for i in range(1, I.N_EXC)]
    profiles += [{"exc": 7, "ext": x} for x in range(27) if x != 2]
    # multiple inheritance: the extractor of the nearest class in the MRO, not of the first base's ancestry
    profiles += [{"exc": 10, "diamond": 1}, {"exc": 10, "diamond": 2}, {"exc": 10, "diamond": 1, "ext": 0}, {"exc": 10, "diamond": 1, "ext": 5}]
    profiles += [{"open": o, "exc": e} for o in range(1, I.N_OPEN) for e in (0, 3)]
    profiles += [{"fin": f, "exc": e} for f in (1, 2) for e in (0, 4)]
    profiles += [{"msgs": 1, "msg": 4, "exc": 7, "ext": x} for x in (1, 3, 9, 13)]
    profiles += [{"handling": 1}, {"handling": 1, "open": 3}, {"handling": 1, "open": 4}]
    profiles += [{"unentered": 1, "msgs": 0}, {"unentered": 1, "exc": 7, "ext": 1}, {"unentered": 1, "exc": 3}]
    # finish(exc) called while the action is still current (style 6), with working / raising / colliding extractors
    profiles += [{"open": 6, "exc": 7, "ext": x} for x in (1, 2, 4)] + [{"exc": 7, "xcollide": 1}, {"open": 6, "exc": 7, "xcollide": 1}]
    # extractors registered only after an action of that class has already failed once
    profiles += [{"exc": 7, "ext": a, "late_ext": b} for a, b in ((0, 2), (0, 6), (0, 18), (2, 6), (2, 18), (6, 18), (2, 7), (0, 1))]
    out = []
    for p in profiles:
        s = dict(p, N=N if ("ext" not in p or "late_ext" in p or tier != "quick") else N - 1, D=D)
        if tier == "thorough":
            for pre in enumerate_prefixes(body_E1, "X", {}, s, 2):
                out.append(dict(s, prefix=pre))
        else:
            out.append(s)
    return out


class SymOSError(OSError):
    """OSError.__str__ is C code CrossHair cannot run on symbolic arguments."""

    def __str__(self):
        return "sym-os-error"


# -- L1: extractor field pass-through for all ints (Mode S) -------------------------
# (The companion "reason == text for every text" is out of reach: str(exception)
# is C code that either realises a symbolic string or rejects CrossHair's string
# proxy; measured: no verdict in 120 s.  Reasons are covered by E1's concrete texts.)
def body_L1(ctx, n, m2):
    received = []
    _output.Logger._destinations.add(received.append)
    e = SymOSError()  # OSError's constructor maps errno to a subclass in C (would realise n)
    e.errno = n
    caught = None
    try:
        with start_action(action_type="t:outer", a=m2):
            with start_action(action_type="t:inner", b=2):
                raise e
    except SymOSError as c:
        caught = c
    ctx.check(caught is e, "a different exception object propagated")
    ends = [m for m in received if m.get("action_status") == "failed"]
    ctx.check(len(ends) == 2 and len(received) == 4, "expected 2 starts + 2 failed ends, got %r", [(m["task_level"], m.get("action_status")) for m in received])
    ctx.check(received[0]["a"] == m2, "start field changed")
    for m in ends:
        ctx.check(m["errno"] == n, "errno field %r", m.get("errno"))
        ctx.check(m["exception"] == "props.c03.SymOSError", "exception name %r", m["exception"])
        ctx.check(m["reason"] == "sym-os-error", "reason %r", m["reason"])
        ctx.check("a" not in m and "b" not in m, "start fields on an end message")
    ctx.nontrivial("errno")
    ctx.sample({"exception": "SymOSError with errno = n", "n": "symbolic int", "start field a": "symbolic int"})
    ctx.reached()


def L1(n: int, m2: int) -> bool:
    """
    post: _
    """
    return run(body_L1, "S", dict(n=n, m2=m2))


OBLIGATIONS = [
    Ob(
        "E1",
        E1,
        body_E1,
        "X",
        desc="all body outcomes x exception classes x extractor registrations x repeated finish: one start, one truthful end, exception identity",
        functions=["Action.__enter__/__exit__", "Action.finish", "Action.context", "Action.run", "log_call", "ErrorExtraction.get_fields_for_exception", "safeunicode", "write_traceback"],
        shards=_e1_shards,
        twin=[{"N": 4, "D": 3, "twin_label": "two-failed"}],
        timeout={"quick": 100, "thorough": 900},
        bounds={"quick": "open/close/raise(j) sequences <= 4 ops, depth <= 3; 10 exception classes; 4 extractor configurations over a diamond hierarchy; 27 extractor configurations for the 3-level user hierarchy (<= 3 ops), 8 configurations where further extractors are registered after the first failure; extractors returning keys named like the built-in failure fields; finish(exc) called inside the action's own context; actions that succeed while an unrelated exception is being handled; 6 open styles x {ValueError, KeyboardInterrupt}; extra finish()/finish(exc); tracebacks with raising extractors", "thorough": "<= 6 ops, depth <= 4"},
    ),
    Ob("L1", L1, body_L1, "S", desc="errno extracted by the stock OSError extractor reaches both failed ends unchanged for every int; start fields stay off the end messages", functions=["Action.finish", "safeunicode", "ErrorExtraction.get_fields_for_exception"], timeout={"quick": 120, "thorough": 300}, bounds={"quick": "errno any int, start field any int, two nested actions"}),
]
