"""C06 - a serialized task id continues the same tree in another thread or process."""

import json
from typing import List

from engine.core import run, enumerate_prefixes, clen
from engine.ob import Ob
from engine import interp as I
from engine.sched import Sched, Deadlock
from props.c01 import RoutingFile, parse_sides, check_forest

import eliot
from eliot import _output, _action, start_action, current_action, preserve_context
from eliot._action import Action, TaskLevel, TooManyCalls
from eliot._output import Logger, FileDestination

PROPERTY = "C06"
NONTRIVIAL_RULE = (
    "L leaves keyed by (depth of the symbolic level, bytes/text id); E1 leaves are hand-off programs x merge interleavings, "
    "non-trivial when >= 1 hand-off happened and the merge interleaves the sides; E2 leaves are schedules of racing calls, "
    "non-trivial when a context switch happened inside restore_eliot_context."
)
EXPLANATION = (
    "L1a/L1b/L1: z3 proves the task-level string round trip, the '<uuid>@<level>' framing and the whole "
    "serialize_task_id -> continue_task hand-off for symbolic levels and counters (bounds stated per lemma: z3's int<->str "
    "theory does not terminate on unbounded integers). E1: hand-offs at arbitrary points and depths, multi-hop, each side "
    "logging to its own file, files merged in every interleaving (per-file order kept) and parsed against the reference "
    "forest. E2: one preserve_context callable invoked from 2-3 threads under the line-granularity scheduler."
)
ASSUMPTIONS = [
    "processes are modelled as separate loggers/files within one interpreter (the code has no process-specific path)",
    "each task id is used once (documented restriction)",
    "threading.Lock.acquire(False) is atomic (real lock kept in E2)",
]


# -- L1a: TaskLevel string round trip ----------------------------------------------------
def body_L1a(ctx, level):
    maxc = ctx.shard.get("max_component", 999)
    ctx.assume(len(level) <= ctx.shard.get("max_depth", 3))
    for x in level:
        ctx.assume(1 <= x <= maxc)
    s = TaskLevel(level=list(level)).toString()
    back = TaskLevel.fromString(s)
    ctx.check(back._level == list(level), "fromString(toString(%r)) == %r", level, back._level)
    ctx.check(isinstance(s, str) and s[0] == "/", "toString gave %r", s)
    d = clen(level)
    ctx.nontrivial(d)
    ctx.sample({"level": "symbolic, depth %d, components 1..%d" % (d, maxc)})
    ctx.reached()


def L1a(level: List[int]) -> bool:
    """
    post: _
    """
    return run(body_L1a, "S", dict(level=level))


# -- L1b: framing ------------------------------------------------------------------------
def body_L1b(ctx, u, s):
    ctx.assume(len(u) <= 5 and len(s) <= 5)
    ctx.assume("@" not in u and "@" not in s)
    for ch in u + s:
        ctx.assume(ord(ch) < 128)
    as_text = ctx.shard.get("text", 0)
    task_id = "{}@{}".format(u, s).encode("ascii")
    if as_text:
        task_id = task_id.decode("ascii")
    # the decoding done by continue_task
    tid = task_id
    if isinstance(tid, bytes):
        tid = tid.decode("ascii")
    a, b = tid.split("@")
    ctx.check(a == u and b == s, "framing gave back %r/%r for %r/%r", a, b, u, s)
    ctx.nontrivial((clen(u), clen(s), as_text))
    ctx.sample({"uuid": "symbolic ASCII str len %d" % clen(u), "level string": "symbolic ASCII str len %d" % clen(s)})
    ctx.reached()


def L1b(u: str, s: str) -> bool:
    """
    post: _
    """
    return run(body_L1b, "S", dict(u=u, s=s))


# -- L1: the whole hand-off -----------------------------------------------------------------
def body_L1(ctx, level, k):
    sh = ctx.shard
    maxc = sh.get("max_component", 9)
    ctx.assume(len(level) <= sh.get("max_depth", 1))
    for x in level:
        ctx.assume(1 <= x <= maxc)
    ctx.assume(0 <= k <= maxc - 2)
    received = []
    Logger._destinations.add(received.append)
    a = Action(None, "uuid-A", TaskLevel(level=list(level)), "t:origin")
    if k > 0:
        a._last_child = TaskLevel(level=list(level) + [k])
    id1 = a.serialize_task_id()
    id2 = a.serialize_task_id()
    ctx.check(type(id1) is bytes and id1 != id2, "two successive ids are equal: %r", id1)
    tid = id1.decode("ascii") if sh.get("text", 0) else id1
    r = Action.continue_task(task_id=tid, x=1)
    ctx.check(r._task_level._level == list(level) + [k + 1], "continued action sits at %r, reserved position was %r", r._task_level._level, list(level) + [k + 1])
    ctx.check(r.task_uuid == "uuid-A", "uuid changed to %r", r.task_uuid)
    ctx.check(len(received) == 1 and received[0]["task_level"] == list(level) + [k + 1, 1] and received[0]["action_type"] == "eliot:remote_task" and received[0]["action_status"] == "started", "remote start message %r", received)
    r2 = Action.continue_task(task_id=id2)
    ctx.check(r2._task_level._level == list(level) + [k + 2], "second id continues at %r", r2._task_level._level)
    ctx.check(a._last_child._level == list(level) + [k + 2], "originating counter %r", a._last_child._level)
    d = clen(level)
    ctx.nontrivial((d, sh.get("text", 0)))
    ctx.sample({"level": "symbolic depth %d, components 1..%d" % (d, maxc), "counter": "symbolic 0..%d" % (maxc - 2)})
    ctx.reached()


def L1(level: List[int], k: int) -> bool:
    """
    post: _
    """
    return run(body_L1, "S", dict(level=level, k=k))


# -- E1: hand-off programs, separate files, every merge interleaving ------------------------------
def body_E1(ctx):
    sh = ctx.shard
    ref = [None]
    rf = RoutingFile(ref)
    Logger._destinations.add(FileDestination(file=rf))
    it = I.Interp(ctx, sh.get("N", 4), sh.get("D", 3), allow_handoff=True, allow_msg=bool(sh.get("msgs", 1)))
    ref[0] = it
    it.run()
    if it.n_handoffs == 0:
        return
    sides = parse_sides(ctx, rf)
    total = sum(len(v) for v in sides.values())
    if total > sh.get("max_lines", 9):
        return
    order = sorted(sides)
    cursors = {s: 0 for s in order}
    merged = []
    picks = []
    cur = None
    switches_left = sh.get("switches", 3)
    while True:
        live = [s for s in order if cursors[s] < len(sides[s])]
        if not live:
            break
        if cur in live:
            others = [s for s in live if s != cur]
            if others and switches_left > 0 and ctx.flag("switch side"):
                switches_left -= 1
                cur = others[ctx.choose(len(others), "to side")]
        else:
            cur = live[ctx.choose(len(live), "next side")]
        s = cur
        picks.append(s)
        merged.append(sides[s][cursors[s]])
        cursors[s] += 1
    emitted = [json.loads(data.decode("utf-8")) for _, data in rf.order]
    check_forest(ctx, it, merged, emitted)
    # the remote sub-tree sits at exactly the reserved position, same uuid: compare_node inside
    # check_forest demands the reference child order, which is position order.
    switches = sum(1 for x, y in zip(picks, picks[1:]) if x != y)
    if switches >= 2:
        ctx.nontrivial((json.dumps(sh, sort_keys=True), tuple(ctx.trace)))
        ctx.reached("interleaved-merge")
    if it.n_handoffs >= 2:
        ctx.reached("two-handoffs")
    ctx.sample({"program": it.render(), "sides": {str(k): len(v) for k, v in sides.items()}, "merge": picks})


def E1() -> bool:
    """
    post: _
    """
    return run(body_E1, "X", {})


# -- E2: racing invocations of one preserve_context callable ---------------------------------
ACTION_FILE = _action.__file__


def body_E2(ctx):
    sh = ctx.shard
    received = []
    Logger._destinations.add(received.append)
    n = sh.get("threads", 2)
    raises = ctx.choose(3, "f returns / raises an Exception / raises a non-Exception BaseException (like SystemExit in a worker)")
    ran = []

    class FErr(Exception):
        pass

    if raises == 2:

        class FErr(BaseException):  # noqa: F811
            pass

    err = FErr("from f")

    def f0(x, y=0, **kw):
        ctx.check(kw == {"f": "kw-f", "self": "kw-self", "action": 1}, "keyword arguments arrived as %r", kw)
        ran.append((x, y))
        if raises:
            raise err
        return ("result", x, y)

    # the kind of callable handed over: any callable qualifies, not only plain functions
    kind = ctx.choose(4, "kind of callable") if sh.get("callables") else 0
    if kind == 0:
        f = f0
    elif kind == 1:
        import functools

        f = functools.partial(f0)
    elif kind == 2:

        class Job(object):
            __slots__ = ()

            def __call__(me, x, y=0, **kw):  # noqa: the caller passes a keyword named self
                return f0(x, y, **kw)

        f = Job()
    else:

        class Holder(object):
            def method(me, x, y=0, **kw):  # noqa
                return f0(x, y, **kw)

        f = Holder().method

    ctx.check(preserve_context(f) is f, "without a current action preserve_context(f) is not f")
    with start_action(action_type="t:origin") as origin:
        g = preserve_context(f)
    ctx.check(g is not f, "preserve_context returned f itself inside an action")
    sched = Sched(ctx, watch={ACTION_FILE: {"restore_eliot_context"}}, preemptions=sh.get("P", 3))
    outcomes = {}

    def mk(i):
        def work():
            try:
                outcomes[i] = ("returned", g(i, y=i + 10, f="kw-f", self="kw-self", action=1))
            except TooManyCalls as e:
                outcomes[i] = ("too-many", e)
            except FErr as e:
                outcomes[i] = ("raised", e)

        return work

    for i in range(n):
        sched.spawn(mk(i), "T%d" % i)
    try:
        sched.run()
    except Deadlock as e:
        ctx.fail("%s (%s)" % (e, sched.render()))
    for w in sched.workers:
        ctx.check(w.exc is None, "worker died with %r", w.exc)
    ctx.check(len(ran) == 1, "f ran %d times under schedule %s", len(ran), sched.render())
    winners = [i for i, o in outcomes.items() if o[0] != "too-many"]
    ctx.check(len(winners) == 1 and len(outcomes) == n, "outcomes %r (schedule %s)", {i: o[0] for i, o in outcomes.items()}, sched.render())
    w = winners[0]
    ctx.check(ran[0] == (w, w + 10), "f received %r, winner passed %r", ran[0], (w, w + 10))
    if raises:
        ctx.check(outcomes[w][0] == "raised" and outcomes[w][1] is err, "exception of f arrived as %r", outcomes[w])
    else:
        ctx.check(outcomes[w] == ("returned", ("result", w, w + 10)), "result of f arrived as %r", outcomes[w])
    # exactly one remote action, child of the origin at the reserved position
    remote = [m for m in received if m.get("action_type") == "eliot:remote_task"]
    ctx.check(len(remote) == 2 and remote[0]["task_uuid"] == origin.task_uuid and remote[0]["task_level"] == [2, 1], "remote action messages %r", [(m["task_level"], m["action_status"]) for m in remote])
    if sched.switches >= n:
        ctx.nontrivial(tuple(ctx.trace))
        ctx.reached("raced")
    ctx.sample({"threads": n, "f_raises": raises, "callable": ["function", "functools.partial", "object with __call__", "bound method"][kind], "winner": w, "schedule": sched.render(10)})


def E2() -> bool:
    """
    post: _
    """
    return run(body_E2, "X", {})


# -- E3: many hand-overs, logs merged file after file ---------------------------------------------
def body_E3(ctx):
    """W tasks each hand work over (serialize_task_id in the front process, continue_task in the
    worker, ids alternately bytes / text); the two log files are merged front-then-worker,
    worker-then-front or chronologically: every task parses to ONE complete tree whose remote
    action sits at the reserved position - however many tasks are pending in the parser."""
    from eliot.parse import Parser
    from eliot import MemoryLogger

    W = [3, 1000, 1001, 1400][ctx.choose(4, "number of hand-overs")]
    merge = ctx.choose(3, "merge order")
    front, worker = MemoryLogger(), MemoryLogger()
    chrono = []
    reserved = {}
    for i in range(W):
        with start_action(front, "front:request", n=i) as a:
            tid = a.serialize_task_id()
            reserved[a.task_uuid] = None
        n0 = len(front.messages)
        with Action.continue_task(worker, tid if i % 2 else tid.decode("ascii")) as r:
            reserved[a.task_uuid] = r._task_level.as_list()
            r.log("worker:step", n=i)
    fm = [json.loads(json.dumps(m)) for m in front.messages]
    wm = [json.loads(json.dumps(m)) for m in worker.messages]
    if merge == 0:
        stream = fm + wm
    elif merge == 1:
        stream = wm + fm
    else:
        stream = sorted(fm + wm, key=lambda m: m["timestamp"])
    try:
        tasks = list(Parser.parse_stream(stream))
    except Exception as e:
        ctx.fail("parser raised %r on %d hand-overs" % (e, W))
    uu = [t.root().task_uuid for t in tasks]
    ctx.check(len(uu) == W and len(set(uu)) == W, "%d hand-overs merged in order %d parsed into %d trees (%d distinct tasks)", W, merge, len(uu), len(set(uu)))
    for t in tasks:
        root = t.root()
        ctx.check(t.is_complete(), "with %d hand-overs, task %s is not complete after both files were read", W, root.task_uuid)
        ctx.check(isinstance(root, _action.WrittenAction) and root.action_type == "front:request", "root of task %s is %r", root.task_uuid, getattr(root, "action_type", None))
        kids = [k for k in root.children if isinstance(k, _action.WrittenAction)]
        ctx.check(len(kids) == 1 and kids[0].action_type == "eliot:remote_task" and kids[0].task_level.as_list() == reserved[root.task_uuid], "continuation of task %s is not the child at the reserved position %r", root.task_uuid, reserved[root.task_uuid])
    ctx.nontrivial((W, merge))
    if W > 1000 and merge != 2:
        ctx.reached("wide")
    ctx.sample({"hand_overs": W, "merge": ["front+worker", "worker+front", "chronological"][merge]})


def E3() -> bool:
    """
    post: _
    """
    return run(body_E3, "X", {})


def _e1_shards(tier):
    cfgs = [{"N": 4, "D": 3, "max_lines": 8}, {"N": 3, "D": 3, "max_lines": 8, "inline_remote": 1, "same_side": 1}] if tier == "quick" else [{"N": 5, "D": 3, "max_lines": 9, "switches": 3}, {"N": 4, "D": 3, "max_lines": 9, "idtext": 1}, {"N": 4, "D": 3, "max_lines": 9, "exc": 3}, {"N": 4, "D": 3, "max_lines": 9, "inline_remote": 1, "same_side": 1}]
    out = []
    for base in cfgs:
        out += [dict(base, prefix=p) for p in enumerate_prefixes(body_E1, "X", {}, base, 4)]
    return out


def _l1_shards(tier):
    if tier == "quick":
        return [{"max_depth": 1, "max_component": 9, "text": t} for t in (0, 1)] + [{"max_depth": 2, "max_component": 30, "text": 0}]
    return [{"max_depth": 1, "max_component": 9, "text": t} for t in (0, 1)] + [{"max_depth": 2, "max_component": 30, "text": t} for t in (0, 1)]


OBLIGATIONS = [
    Ob("L1a", L1a, body_L1a, "S", desc="TaskLevel.fromString(toString(l)) == l", functions=["TaskLevel.toString", "TaskLevel.fromString"],
       shards={"quick": [{"max_depth": 2, "max_component": 999}], "thorough": [{"max_depth": 3, "max_component": 999}]},
       timeout={"quick": 150, "thorough": 600}, path_timeout=60,
       bounds={"quick": "levels of depth <= 2, components 1..999 (unbounded integers: z3's int<->str conversion does not terminate)", "thorough": "depth <= 3 with components 1..999"}),
    Ob("L1b", L1b, body_L1b, "S", desc="'<uuid>@<level>' framing: format, ascii encode/decode, split('@') returns the two parts", functions=["Action.serialize_task_id (framing)", "Action.continue_task (decoding)"],
       shards={"quick": [{"text": 0}, {"text": 1}]}, twin=[{"text": 0}], timeout={"quick": 150, "thorough": 400}, path_timeout=60,
       bounds={"quick": "uuid and level strings: any ASCII strings without '@', length <= 5"}),
    Ob("L1", L1, body_L1, "S", desc="serialize_task_id reserves k+1 (then k+2); continue_task(bytes|text) yields an action at level+[k+1] with the same uuid whose start is at level+[k+1,1]", functions=["Action.serialize_task_id", "Action.continue_task", "Action._nextTaskLevel", "TaskLevel.toString/fromString", "Action._start"],
       shards=_l1_shards, timeout={"quick": 150, "thorough": 600}, path_timeout=60,
       bounds={"quick": "levels of depth <= 1 with components 1..9 (bytes and text ids) and depth <= 2 with components 1..30 (bytes ids); counter 0..max-2", "thorough": "additionally text ids at depth <= 2, components 1..30"}),
    Ob("E1", E1, body_E1, "X", desc="hand-off programs (multi-hop, any point/depth), one file per side, every merge interleaving: one task, remote sub-tree at the reserved position", functions=["Action.serialize_task_id", "Action.continue_task", "FileDestination.__call__", "Parser.parse_stream", "Task.add"],
       shards=_e1_shards, twin=[{"N": 4, "D": 3, "max_lines": 8, "twin_label": "interleaved-merge"}], timeout={"quick": 100, "thorough": 1500},
       bounds={"quick": "programs <= 4 ops with >= 1 hand-off, depth <= 3, <= 8 lines in total, all merges of the sides' files with <= 3 voluntary side switches (per-file order kept); <= 3 ops where the continuation runs in a context that already has a current action", "thorough": "<= 5 ops / 9 lines; text ids; failing remote side; inline continuations with <= 4 ops"}),
    Ob("E2", E2, body_E2, "X", desc="one preserve_context callable raced by 2-3 threads at line granularity: f runs exactly once, the others get TooManyCalls, result/exception passes through", functions=["preserve_context", "restore_eliot_context", "Action.continue_task"],
       shards={"quick": [{"threads": 2, "P": 3}, {"threads": 1, "P": 0, "callables": 1}], "thorough": [{"threads": 2, "P": 1000}, {"threads": 3, "P": 3}, {"threads": 2, "P": 2, "callables": 1}]}, twin=[{"threads": 2, "P": 3, "twin_label": "raced"}], timeout={"quick": 100, "thorough": 900},
       bounds={"quick": "2 threads, <= 3 preemptions, yield at every line of restore_eliot_context; one thread with 4 kinds of callable (function, functools.partial, object with __call__, bound method)", "thorough": "2 threads all schedules; 3 threads <= 3 preemptions; the 4 kinds of callable with 2 threads <= 2 preemptions"}),
    Ob("E3", E3, body_E3, "X", desc="3 / 1000 / 1001 / 1400 hand-overs with ids as bytes and text; the two files merged in three orders: one complete tree per task, continuation at the reserved position", functions=["Action.serialize_task_id", "Action.continue_task", "Parser.parse_stream", "Parser.add"],
       twin=[{"twin_label": "wide"}], timeout={"quick": 100, "thorough": 300}, bounds={"quick": "4 sizes x 3 merge orders (front file first, worker file first, chronological)"}),
]
