"""C20 - bundled readers render every message completely and survive foreign input."""

import ast
import io
import json
import re
import sys
from datetime import datetime
from typing import List

from engine.core import run, enumerate_prefixes
from engine.ob import Ob

from eliot import prettyprint, filter as efilter
from eliot.prettyprint import pretty_format, compact_format

PROPERTY = "C20"
NONTRIVIAL_RULE = (
    "L1 leaves keyed by the class of the decoded value; E1 leaves are (formatter, options, message from a corner menu) and "
    "E2 leaves input streams of <= 3 lines from a 12-kind menu - non-trivial when a foreign line or a corner value is present; "
    "keyed by decision vector."
)
EXPLANATION = (
    "L1 runs eliot-prettyprint's main loop with json.loads stubbed by a symbolic decoded value (None/bool/int/float/str/"
    "list/dict with symbolic presence of the required keys) or a decode error, and proves the line classification for "
    "every such value; E1 compares pretty_format/compact_format with an independent rendering rule on corner messages; "
    "E2 feeds solver-chosen mixed streams to the real command (real json) and to eliot.filter."
)
ASSUMPTIONS = [
    "field names do not contain newlines (compact output cannot be one line for them)",
    "objects that carry the three required keys have well-typed values for them (str uuid, list of ints, number)",
    "pprint/json.dumps/datetime are C or stdlib code that realises symbolic values, so rendering is checked on concrete corner values (E1), not for all values",
]

VALID = {"task_uuid": "8c668cde", "task_level": [1, 2], "timestamp": 1425356800.5, "message_type": "m", "k": 1}


class _In(object):
    def __init__(self, lines):
        self.lines = lines

    def __iter__(self):
        return iter(self.lines)


def run_main(lines, argv=()):
    saved = (prettyprint.stdin, prettyprint.stdout, sys.argv)
    out = io.StringIO()
    prettyprint.stdin = _In(lines)
    prettyprint.stdout = out
    sys.argv = ["eliot-prettyprint"] + list(argv)
    try:
        prettyprint._main()
    finally:
        prettyprint.stdin, prettyprint.stdout, sys.argv = saved
    return out.getvalue()


# -- L1 ------------------------------------------------------------------------------------
def body_L1(ctx, kind, b, i, f, s, xs, has_uuid, has_level, has_ts, extra):
    ctx.assume(0 <= kind <= 7)
    ctx.assume(len(s) <= 3 and len(xs) <= 2)
    label = ["decode-error", "null", "bool", "int", "float", "str", "list", "dict"][kind]
    if kind == 7:
        value = {}
        if has_uuid:
            value["task_uuid"] = "u-1"
        if has_level:
            value["task_level"] = [1]
        if has_ts:
            value["timestamp"] = 0.5
        if extra:
            value["x"] = 1
        complete = True if (has_uuid and has_level and has_ts) else False
        label = "dict-complete" if complete else "dict-incomplete"
    else:
        value = [None, None, b, i, f, s, xs][kind]
        complete = False
    calls = []

    def stub_loads(line):
        calls.append(line)
        if len(calls) == 1:
            if kind == 0:
                raise ValueError("not json")
            return value
        return dict(VALID)

    saved = prettyprint.loads
    prettyprint.loads = stub_loads
    try:
        try:
            out = run_main([b"first\n", b"second\n"])
        except Exception as e:
            ctx.fail("eliot-prettyprint aborted with %r on a line that decodes to a %s" % (e, label), sig="C20:non-object-json-line" if kind in (1, 2, 3, 4, 5, 6) else None)
    finally:
        prettyprint.loads = saved
    tail = pretty_format(dict(VALID)) + "\n"
    ctx.check(len(calls) == 2 and out.endswith(tail), "processing did not continue with the next line after a %s", label)
    head = out[: len(out) - len(tail)]
    if kind == 0:
        ctx.check(head == "Not JSON: %s\n\n" % (b"first",), "decode error reported as %r", head)
    elif complete:
        ctx.check(head == pretty_format(value) + "\n", "complete object rendered as %r", head)
    else:
        ctx.check(head == "Not an Eliot message: %s\n\n" % (b"first",), "%s reported as %r", label, head)
    ctx.nontrivial(label)
    ctx.sample({"first line decodes to": label})
    ctx.reached()


def L1(kind: int, b: bool, i: int, f: float, s: str, xs: List[int], has_uuid: bool, has_level: bool, has_ts: bool, extra: bool) -> bool:
    """
    post: _
    """
    return run(body_L1, "S", dict(kind=kind, b=b, i=i, f=f, s=s, xs=xs, has_uuid=has_uuid, has_level=has_level, has_ts=has_ts, extra=extra))


# -- E1: formatters vs an independent rendering rule -----------------------------------------
FIELD_VALUES = [
    ("int", 7),
    ("multi-line", "line1\nline2\n\tindented"),
    ("unicode", "ü\U0001f600\"q\""),
    ("nested", {"a": [1, {"b": None}], "c": "x\ny"}),
    ("list", [1.5, True, None, "s"]),
    ("empty", ""),
    ("long", "word " * 30),
    ("bool", False),
    ("blanks-before-newlines", "pw: \nin\t\nend  "),
    ("only-blanks", " \n\t\n "),
]
# values that compare (and hash) equal across types but have different JSON encodings
NUMERIC_VALUES = [("1", 1), ("1.0", 1.0), ("true", True), ("0", 0), ("0.0", 0.0), ("-0.0", -0.0), ("false", False), ("text-1", "1")]
FIELD_NAMES = ["k", "zeta", "Alpha", "reason", "exception", "task", "action", "used%", "rate%s", "100%%", "{0}"]
TIMESTAMPS = [0.0, 1425356800.5, 1425356800.000001, 1.0e9 + 0.999999, 86399.25]


def independent_compact(m):
    first = ["action_type", "message_type", "action_status"]
    skip = {"timestamp", "task_uuid", "task_level", "message_type", "action_type", "action_status"}
    parts = []
    for k in first:
        if k in m:
            parts.append("%s=%s" % (k, json.dumps(m[k], separators=(",", ":"))))
    for k in sorted(m):
        if k not in skip:
            parts.append("%s=%s" % (k, json.dumps(m[k], separators=(",", ":"))))
    ts = datetime.utcfromtimestamp(m["timestamp"]).isoformat(sep="T") + "Z"
    return "%s/%s %s %s" % (m["task_uuid"], "/".join(str(x) for x in m["task_level"]), ts, " ".join(parts))


def body_E1(ctx):
    sh = ctx.shard
    levels = [[1], [2, 3, 1], [10, 1]][: sh.get("levels", 3)]
    stamps = TIMESTAMPS[: sh.get("stamps", 5)]
    m = {"task_uuid": "8c668cde-235b", "task_level": levels[ctx.choose(len(levels), "level")], "timestamp": stamps[ctx.choose(len(stamps), "timestamp")]}
    kind = ctx.choose(5, "message kind")
    if kind == 0:
        m["message_type"] = "app:msg"
    elif kind == 1:
        m.update(action_type="app:act", action_status=["started", "succeeded", "failed"][ctx.choose(3, "status")])
    elif kind == 3:
        m.update(action_type="", action_status="started")  # start_action() without a type
    elif kind == 4:
        m["message_type"] = ""  # Message.log() without a type
    nfields = ctx.choose(sh.get("max_fields", 1) + 1, "number of fields")
    names_left = list(FIELD_NAMES)
    values = FIELD_VALUES
    if sh.get("numeric"):
        names_left, values = ["k", "zeta"], NUMERIC_VALUES
    labels = []
    for i in range(nfields):
        name = names_left.pop(ctx.choose(len(names_left), "field name"))
        lab, v = values[ctx.choose(len(values), "field value")]
        m[name] = v
        labels.append((name, lab))
    ts = datetime.utcfromtimestamp(m["timestamp"])
    # --- compact ---
    c = compact_format(dict(m))
    ctx.check("\n" not in c, "compact output is not a single line: %r", c)
    ctx.check(c == independent_compact(m), "compact_format gave %r, the documented rule gives %r", c, independent_compact(m))
    # --- pretty ---
    p = pretty_format(dict(m))
    lines = p.split("\n")
    ctx.check(lines[0] == "%s -> /%s" % (m["task_uuid"], "/".join(map(str, m["task_level"]))), "first line %r", lines[0])
    mo = re.match(r"^(\d{4}-\d\d-\d\dT\d\d:\d\d:\d\d)(\.(\d{6}))?Z$", lines[1])
    ctx.check(mo is not None, "timestamp line %r", lines[1])
    shown = datetime.strptime(mo.group(1), "%Y-%m-%dT%H:%M:%S").replace(microsecond=int(mo.group(3) or 0))
    ctx.check(shown == ts, "timestamp rendered as %r for %r", lines[1], m["timestamp"])
    skip = {"timestamp", "task_uuid", "task_level"}
    order = [k for k in ("action_type", "message_type", "action_status") if k in m] + sorted(k for k in m if k not in skip and k not in ("action_type", "message_type", "action_status"))
    heads = [ln for ln in lines[2:] if re.match(r"^  [^ |].*?: ", ln) and not ln.startswith("   ")]
    got_order = [h[2:].split(": ", 1)[0] for h in heads]
    ctx.check(got_order == order, "fields rendered in order %r, expected %r (message %r)", got_order, order, m)
    for k in order:
        v = m[k]
        if isinstance(v, str):
            for piece in v.split("\n"):
                for sub in piece.split("\t"):
                    if sub.strip():
                        frag = sub.strip().split(" ")[0]
                        ctx.check(frag.replace("\"", "") in p.replace("\\", "").replace("\"", "") or repr(frag)[1:-1] in p, "text %r of field %s is missing from the pretty output", frag, k)
    # short text values can be read back exactly from the rendering (every blank and tab included)
    for k in order:
        v = m[k]
        if isinstance(v, str) and len(repr(v)) <= 38 and "\\" not in v:
            first = "  %s: " % k
            cont = "%s| " % (" " * (2 + len(k)))
            start = next(i for i, ln in enumerate(lines) if ln.startswith(first) and not ln.startswith("   "))
            got_lines = [lines[start][len(first):]]
            j = start + 1
            while j < len(lines) and lines[j].startswith(cont):
                got_lines.append(lines[j][len(cont):])
                j += 1
            shown = "\n".join(got_lines).replace("\n ", "\\n").replace("\t", "\\t")
            try:
                back = ast.literal_eval(shown)
            except Exception:
                back = None
            ctx.check(back == v, "field %s has the value %r, what pretty_format shows reads back as %r (rendering %r)", k, v, back, got_lines)
    # local timezone flag only changes the timestamp line
    pl = pretty_format(dict(m), True).split("\n")
    ctx.check(pl[0] == lines[0] and pl[2:] == lines[2:] and not pl[1].endswith("Z"), "local-timezone rendering differs beyond the timestamp")
    ctx.nontrivial(tuple(ctx.trace))
    if nfields >= 1 and kind == 1:
        ctx.reached("action-with-field")
    kind = 1 if kind == 3 else kind
    ctx.sample({"message_keys": sorted(m), "fields": labels, "compact": c[:160]})


def E1() -> bool:
    """
    post: _
    """
    return run(body_E1, "X", {})


# -- E2: command line loop and eliot.filter on mixed streams ---------------------------------
# field values an "is there a result?" test is tempted to treat as "nothing to write"
FALSY_FIELDS = {"nothing": None, "zero": 0, "no": False, "empty": "", "elist": [], "eobj": {}}


def _valid_line(n):
    d = dict(VALID, n=n, text="multi\nline", **FALSY_FIELDS)
    return (json.dumps(d) + "\n").encode("utf-8")


LINES = [
    ("valid", lambda n: _valid_line(n)),
    ("valid-action", lambda n: (json.dumps({"task_uuid": "a", "task_level": [1], "timestamp": 5.25, "action_type": "t", "action_status": "started", "n": n}) + "\n").encode()),
    ("non-utf8", lambda n: b"\xff\xfe\xfa\n"),
    ("text", lambda n: b"hello world\n"),
    ("json-int", lambda n: b"5\n"),
    ("json-null", lambda n: b"null\n"),
    ("json-list", lambda n: b"[1, 2]\n"),
    ("json-string", lambda n: b"\"task_uuid\"\n"),
    ("json-bool", lambda n: b"true\n"),
    ("json-string-naming-fields", lambda n: b"\"lacks task_uuid / task_level / timestamp\"\n"),
    ("json-list-naming-fields", lambda n: b"[\"timestamp\", \"task_uuid\", \"task_level\", \"message_type\"]\n"),
    ("incomplete-object", lambda n: b"{\"task_uuid\": \"u\", \"timestamp\": 1}\n"),
    ("empty-line", lambda n: b"\n"),
    ("truncated-json", lambda n: b"{\"task_uuid\": \"u\", \"ta"),
]


def body_E2(ctx):
    n = 1 + ctx.choose(ctx.shard.get("max_lines", 3), "number of lines")
    kinds = []
    lines = []
    for i in range(n):
        name, mk = LINES[ctx.choose(len(LINES), "line kind")]
        kinds.append(name)
        lines.append(mk(i))
    opt = [(), ("-c",), ("-l",), ("-c", "-l")][ctx.choose(4, "options")]
    try:
        out = run_main(lines, opt)
    except Exception as e:
        sig = "C20:non-object-json-line" if any(k in ("json-int", "json-null", "json-list", "json-string", "json-bool") for k in kinds) and isinstance(e, AttributeError) else None
        ctx.fail("eliot-prettyprint %s aborted with %r on the stream %r" % (" ".join(opt), e, kinds), sig=sig)
    fmt = compact_format if "-c" in opt else pretty_format
    expected = ""
    for name, ln in zip(kinds, lines):
        if name.startswith("valid"):
            expected += fmt(json.loads(ln), "-l" in opt) + "\n"
        elif name in ("non-utf8", "text", "empty-line", "truncated-json"):
            expected += "Not JSON: %s\n\n" % (ln.rstrip(b"\n"),)
        else:
            expected += "Not an Eliot message: %s\n\n" % (ln.rstrip(b"\n"),)
    ctx.check(out == expected, "output for stream %r with options %r is %r, expected %r", kinds, opt, out, expected)
    # eliot.filter on the valid lines of the same stream
    valid = [ln for name, ln in zip(kinds, lines) if name.startswith("valid")]
    if valid:
        o = io.StringIO()
        efilter.EliotFilter("J", valid, o).run()
        ctx.check(o.getvalue() == "".join(json.dumps(json.loads(l)) + "\n" for l in valid), "identity filter does not reproduce the messages: %r", o.getvalue())
        o = io.StringIO()
        efilter.EliotFilter("SKIP if J['n'] % 2 else J['n']", valid, o).run()
        ctx.check(o.getvalue() == "".join("%d\n" % json.loads(l)["n"] for l in valid if json.loads(l)["n"] % 2 == 0), "SKIP filter output %r", o.getvalue())
        # one output line per input line whatever the expression's value is - null, 0, false, "", [], {}
        plain = [l for l, k in zip(valid, [k for k in kinds if k.startswith("valid")]) if k == "valid"]
        for key, v in sorted(FALSY_FIELDS.items()):
            for expr in ("J[%r]" % key, "J.get(%r)" % key):
                o = io.StringIO()
                efilter.EliotFilter(expr, plain, o).run()
                ctx.check(o.getvalue() == (json.dumps(v) + "\n") * len(plain), "filter %s over %d messages wrote %r", expr, len(plain), o.getvalue())
        o = io.StringIO()
        efilter.EliotFilter("SKIP if J['n'] % 2 else J.get('absent')", valid, o).run()
        ctx.check(o.getvalue() == "null\n" * sum(1 for l in valid if json.loads(l)["n"] % 2 == 0), "SKIP-or-null filter output %r", o.getvalue())
        o = io.StringIO()
        efilter.EliotFilter("datetime.utcfromtimestamp(J['timestamp'])", valid, o).run()
        ctx.check(o.getvalue() == "".join(json.dumps(datetime.utcfromtimestamp(json.loads(l)["timestamp"]).isoformat()) + "\n" for l in valid), "datetime filter output %r", o.getvalue())

        class FakeSys(object):
            argv = ["eliot-filter", "J"]
            stdin = valid
            stdout = io.StringIO()
            stderr = io.StringIO()

        ctx.check(efilter.main(FakeSys) == 0 and FakeSys.stdout.getvalue().count("\n") == len(valid), "eliot.filter main() output %r", FakeSys.stdout.getvalue())
    # identity over every line that is JSON at all (objects or not) reproduces each of them
    decodable = [ln for name, ln in zip(kinds, lines) if name.startswith("valid") or name.startswith("json-") or name == "incomplete-object"]
    if decodable:
        o = io.StringIO()
        efilter.EliotFilter("J", decodable, o).run()
        ctx.check(o.getvalue() == "".join(json.dumps(json.loads(l)) + "\n" for l in decodable), "identity filter over JSON lines %r wrote %r", decodable, o.getvalue())
    if any(not k.startswith("valid") for k in kinds):
        ctx.nontrivial(tuple(ctx.trace))
    if len(kinds) == 3 and kinds[0].startswith("json-") and kinds[2].startswith("valid"):
        ctx.reached("foreign-then-valid")
    ctx.sample({"stream": kinds, "options": opt})


def E2() -> bool:
    """
    post: _
    """
    return run(body_E2, "X", {})


OBLIGATIONS = [
    Ob(
        "L1",
        L1,
        body_L1,
        "S",
        desc="line classification of eliot-prettyprint for an arbitrary decoded JSON value (loads stubbed): never aborts, right report, continues",
        functions=["prettyprint._main"],
        timeout={"quick": 200, "thorough": 400},
        path_timeout=90,
        bounds={"quick": "decoded value: decode error | None | any bool | any int | any float | any str (len<=3) | any list of <= 2 ints | dict with any subset of the three required keys (+/- one extra key); followed by one valid line"},
        assumptions=["stub: eliot.prettyprint.loads returns the symbolic value / raises ValueError; replayed with concrete values"],
    ),
    Ob(
        "E1",
        E1,
        body_E1,
        "X",
        desc="pretty_format / compact_format vs the documented rendering rule on corner messages",
        functions=["pretty_format", "compact_format", "_render_timestamp"],
        shards=lambda tier: [dict(b, prefix=p) for b in ([{"max_fields": 1}, {"max_fields": 2, "levels": 1, "stamps": 1, "numeric": 1}] if tier == "quick" else [{"max_fields": 1}, {"max_fields": 2, "levels": 2, "stamps": 2}, {"max_fields": 2, "levels": 2, "stamps": 2, "numeric": 1}]) for p in enumerate_prefixes(body_E1, "X", {}, b, 2 if tier == "quick" else 3)],
        twin=[{"max_fields": 1, "twin_label": "action-with-field"}],
        timeout={"quick": 100, "thorough": 900},
        bounds={"quick": "3 task levels x 5 timestamps x {message, action x 3 statuses, no type field, empty action_type, empty message_type} x <= 1 extra field (11 names, incl. names containing % and {} format directives, x 10 corner values; short text values are read back exactly from the rendering); <= 2 fields over values that are equal across types but encode differently (1, 1.0, true, 0, 0.0, -0.0, false, \"1\")", "thorough": "additionally <= 2 extra fields with 2 levels x 2 timestamps"},
    ),
    Ob(
        "E2",
        E2,
        body_E2,
        "X",
        desc="eliot-prettyprint on mixed input streams (14 line kinds, 4 option sets) and eliot.filter (identity, SKIP, datetime, field extraction giving null/0/false/empty values, main) on their valid / JSON lines",
        functions=["prettyprint._main", "EliotFilter.run", "EliotFilter._evaluate", "eliot.filter.main", "_DatetimeJSONEncoder"],
        shards=lambda tier: [dict({"max_lines": 2 if tier == "quick" else 3}, prefix=p) for p in enumerate_prefixes(body_E2, "X", {}, {"max_lines": 2 if tier == "quick" else 3}, 2)],
        twin=[{"max_lines": 3, "twin_label": "foreign-then-valid"}],
        timeout={"quick": 100, "thorough": 600},
        bounds={"quick": "streams of <= 2 lines from 14 kinds x 4 option sets", "thorough": "streams of <= 3 lines"},
    ),
]
