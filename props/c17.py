"""C17 - test helpers reconstruct the same action tree as the parser."""

import json
import unittest
from typing import List

from engine.core import run, enumerate_prefixes, clen
from engine.ob import Ob
from engine import interp as I

from eliot import _output
from eliot._output import MemoryLogger
from eliot.parse import Parser
from eliot._action import WrittenAction
from eliot.testing import LoggedAction, LoggedMessage, assertHasAction, assertHasMessage

PROPERTY = "C17"
NONTRIVIAL_RULE = (
    "E1 leaves are programs captured by one MemoryLogger; non-trivial when two actions share a type at different depths "
    "or as siblings, or a hand-off/failed action is present; keyed by (shard, decision vector). L1 leaves keyed by the lengths of the two symbolic levels."
)
EXPLANATION = (
    "Solver-enumerated programs with repeated action types are captured by a MemoryLogger; for every type, "
    "LoggedAction.of_type / LoggedMessage.of_type / descendants / type_tree / assertHasAction / assertHasMessage are "
    "compared with the parser's tree of the same messages and with the reference forest. L1 proves the prefix rule of "
    "LoggedAction.fromMessages for symbolic task levels."
)
ASSUMPTIONS = ["logs contain only started-and-finished actions of the queried type (of_type raises ValueError otherwise; outside the property)"]


class _TC(unittest.TestCase):
    def runTest(self):
        pass


def la_tree(la):
    """Children sorted by position: the helper lists them in emission order (checked
    separately), the parser by level; with hand-offs whose work is logged after later
    siblings the two orders differ although the trees are the same."""
    if isinstance(la, LoggedMessage):
        return ("m", tuple(la.message["task_level"]))
    return ("a", tuple(la.startMessage["task_level"]), tuple(la.endMessage["task_level"]), tuple(sorted((la_tree(c) for c in la.children), key=lambda t: t[1])))


def wa_tree(node):
    if not isinstance(node, WrittenAction):
        return ("m", tuple(node.task_level.as_list()))
    return ("a", tuple(node.start_message.task_level.as_list()), tuple(node.end_message.task_level.as_list()), tuple(wa_tree(c) for c in node.children))


def preorder(tree):
    out = []
    for c in tree[3]:
        out.append(c[1])
        if c[0] == "a":
            out.extend(preorder(c))
    return out


def body_E1(ctx):
    sh = ctx.shard
    logger = MemoryLogger()
    _output._DEFAULT_LOGGER = logger
    it = I.Interp(ctx, sh.get("N", 4), sh.get("D", 3), allow_handoff=bool(sh.get("handoff", 1)))
    it.check_context = False
    if sh.get("wide"):
        # one action with many direct children; two of them - at positions p and q, where q's
        # decimal digits begin with p's - are actions with a child action of their own
        from eliot import start_action, log_message

        p = 2 + ctx.choose(2, "position of the first child action")
        q = 10 * p + ctx.choose(3, "position of the second child action - 10p")
        last = q + ctx.choose(2, "children after it")
        it.ops.append("wide(p=%d,q=%d,last=%d)" % (p, q, last))
        with start_action(action_type="t:wide", x=0):
            for pos in range(2, last + 1):
                if pos in (p, q):
                    with start_action(action_type="t:kid", x=pos):
                        with start_action(action_type="t:grandkid", x=pos):
                            log_message("t:leaf", x=pos)
                else:
                    log_message("t:m", x=pos)
        it.n_actions = 5
    else:
        it.run()
    messages = logger.messages
    tasks = {t.root().task_uuid: t for t in Parser.parse_stream(messages)}

    def wa_at(uuid, level):
        node = tasks[uuid].root()
        for d in range(len(level)):
            kids = {tuple(k.task_level.as_list()): k for k in node.children}
            node = kids[tuple(level[: d + 1])]
        return node

    types = sorted(set(m["action_type"] for m in messages if "action_type" in m))
    interesting = False
    for ty in types:
        starts = [m for m in messages if m.get("action_type") == ty and m["action_status"] == "started"]
        try:
            found = LoggedAction.of_type(messages, ty)
        except Exception as e:
            ctx.fail("LoggedAction.of_type(%r) raised %r (program %s)" % (ty, e, it.render()))
        if ty == I.TYPED_ACTION.action_type:
            by_object = LoggedAction.of_type(messages, I.TYPED_ACTION)
            ctx.check([e.startMessage for e in by_object] == [e.startMessage for e in found], "of_type(ActionType object) differs from of_type(str)")
        ctx.check(len(found) == len(starts), "of_type(%s) returned %d entries, the program ran %d actions of that type (program %s)", ty, len(found), len(starts), it.render())
        if len(starts) >= 2:
            interesting = True
        for la, st in zip(found, starts):
            ctx.check(la.startMessage is st, "of_type(%s): entries are not in emission order / wrong start message", ty)
            ctx.check(la.start_message is la.startMessage and la.end_message is la.endMessage, "PEP8 aliases differ")
            level = st["task_level"][:-1]
            wa = wa_at(st["task_uuid"], level)
            ctx.check(dict(wa.start_message.as_dict()) == la.startMessage and dict(wa.end_message.as_dict()) == la.endMessage, "start/end messages of %s at %r differ from the parser's", ty, level)
            ctx.check(la.endMessage["task_uuid"] == st["task_uuid"] and la.endMessage["task_level"][:-1] == level, "end message belongs to another action")
            ctx.check(la.succeeded == (la.endMessage["action_status"] == "succeeded") == (wa.status == "succeeded"), "succeeded flag wrong")
            t1, t2 = la_tree(la), wa_tree(wa)
            ctx.check(t1 == t2, "of_type(%s) entry at %r has tree %r, the parser built %r (program %s)", ty, level, t1, t2, it.render())
            # children listed in emission order
            pos = {id(m): i for i, m in enumerate(messages)}
            order = [pos[id(c.message if isinstance(c, LoggedMessage) else c.startMessage)] for c in la.children]
            ctx.check(order == sorted(order), "children of %s at %r are not in emission order", ty, level)
            desc = [tuple((d.message if isinstance(d, LoggedMessage) else d.startMessage)["task_level"]) for d in la.descendants()]

            def pre_emission(node):
                out = []
                for c in node.children:
                    out.append(tuple((c.message if isinstance(c, LoggedMessage) else c.startMessage)["task_level"]))
                    if isinstance(c, LoggedAction):
                        out.extend(pre_emission(c))
                return out

            ctx.check(desc == pre_emission(la), "descendants() gives %r, pre-order of the helper's own tree is %r", desc, pre_emission(la))
            ctx.check(sorted(desc) == sorted(preorder(t2)), "descendants() %r and the parser's nodes %r differ", desc, preorder(t2))
            if not sh.get("deferred"):
                ctx.check(desc == preorder(t2), "descendants() gives %r, pre-order of the parser's tree is %r", desc, preorder(t2))

            def tt(node):
                if not isinstance(node, WrittenAction):
                    return node.contents["message_type"]
                return {node.action_type: [tt(c) for c in node.children]}

            if not sh.get("deferred"):
                ctx.check(la.type_tree() == tt(wa), "type_tree() %r differs from the parser's tree %r", la.type_tree(), tt(wa))
        # assertHasAction: succeeds iff the FIRST entry matches
        first = found[0]
        tc = _TC()
        exp_kind = ctx.choose(5, "expectation")
        want_ok = first.succeeded
        sf = {"x": first.startMessage["x"]}
        if exp_kind == 1:
            want_ok = not want_ok
        elif exp_kind == 2:
            sf = {"x": "no-such-value"}
        elif exp_kind == 4:
            sf = {"x": first.startMessage["x"], "no_such_field": None}  # absent is not the same as None
        elif exp_kind == 3:
            later = [e for e in found[1:] if e.startMessage["x"] != first.startMessage["x"]]
            if later:
                sf = {"x": later[0].startMessage["x"]}  # matches only a later entry
            else:
                exp_kind = 0
        try:
            got = assertHasAction(tc, logger, ty, want_ok, sf, {})
            raised = False
        except AssertionError:
            raised = True
        ctx.check(raised == (exp_kind != 0), "assertHasAction(%s) with expectation kind %d: raised=%r (program %s)", ty, exp_kind, raised, it.render())
        if not raised:
            ctx.check(got.startMessage is first.startMessage, "assertHasAction returned another entry than the first")
    mtypes = sorted(set(m["message_type"] for m in messages if "message_type" in m))
    for mt in mtypes:
        exp = [m for m in messages if m.get("message_type") == mt]
        got = LoggedMessage.of_type(messages, mt)
        if mt == I.TYPED_MESSAGE.message_type:
            ctx.check([g.message for g in LoggedMessage.of_type(messages, I.TYPED_MESSAGE)] == [g.message for g in got], "of_type(MessageType object) differs from of_type(str)")
        ctx.check([g.message for g in got] == exp and all(g.message is e for g, e in zip(got, exp)), "LoggedMessage.of_type(%s) wrong", mt)
        tc = _TC()
        try:
            r = assertHasMessage(tc, logger, mt, {"x": exp[0]["x"]})
            ok = r.message is exp[0]
        except AssertionError:
            ok = False
        ctx.check(ok, "assertHasMessage(%s) rejected the first message's own fields", mt)
        try:
            assertHasMessage(tc, logger, mt, {"x": exp[0]["x"], "no_such_field": None})
            ctx.fail("assertHasMessage(%s) accepted an expected field the message does not have (expected value None)" % mt)
        except AssertionError:
            pass
        if len(exp) >= 2 and exp[1]["x"] != exp[0]["x"]:
            try:
                assertHasMessage(tc, logger, mt, {"x": exp[1]["x"]})
                ctx.fail("assertHasMessage(%s) accepted fields that only a later message has" % mt)
            except AssertionError:
                pass
    tc = _TC()
    for fn in (lambda: assertHasAction(tc, logger, "no:such", True), lambda: assertHasMessage(tc, logger, "no:such")):
        try:
            fn()
            ctx.fail("assert helper accepted a type that was never logged")
        except AssertionError:
            pass
    if interesting or it.n_handoffs or it.n_failed:
        ctx.nontrivial((json.dumps(sh, sort_keys=True), tuple(ctx.trace)))
    if interesting and it.n_actions >= 3:
        ctx.reached("repeated-types")
    ctx.sample({"program": it.render(), "types": types, "messages": len(messages)})


def E1() -> bool:
    """
    post: _
    """
    return run(body_E1, "X", {})


# -- L1: prefix rule of fromMessages for symbolic levels ---------------------------------
def body_L1(ctx, A, L):
    ctx.assume(len(A) <= 3 and 1 <= len(L) <= 4)
    for x in A:
        ctx.assume(x >= 1)
    for x in L:
        ctx.assume(x >= 1)
    A = list(A)
    L = list(L)
    u = "u"
    start = {"task_uuid": u, "task_level": A + [1], "action_type": "a", "action_status": "started"}
    end = {"task_uuid": u, "task_level": A + [3], "action_type": "a", "action_status": "succeeded"}
    probe = {"task_uuid": u, "task_level": L, "message_type": "probe"}
    own = L[:-1] == A
    ctx.assume(not (own and (L[-1] == 1 or L[-1] == 3)))  # would collide with start/end positions
    child_start = (len(L) == len(A) + 2) and L[: len(A)] == A and L[-1] == 1
    try:
        la = LoggedAction.fromMessages(u, A + [1], [start, probe, end])
        outcome = "own" if len(la.children) == 1 else "ignored"
        ctx.check(len(la.children) <= 1, "children %r", la.children)
    except ValueError:
        outcome = "child-action"
    expected = "own" if own else ("child-action" if child_start else "ignored")
    ctx.check(outcome == expected, "message at level %r inside action at %r was treated as %s, expected %s", L, A, outcome, expected)
    ctx.nontrivial((clen(A), clen(L), expected))
    ctx.sample({"action level": "symbolic len %d" % clen(A), "message level": "symbolic len %d" % clen(L), "class": expected})
    ctx.reached()


def L1(A: List[int], L: List[int]) -> bool:
    """
    post: _
    """
    return run(body_L1, "S", dict(A=A, L=L))


def _shards(tier):
    out = []
    cfgs = [{"N": 4, "D": 3, "handoff": 1}, {"N": 3, "D": 3, "types": 2, "handoff": 0}, {"N": 3, "D": 3, "handoff": 1, "deferred": 1, "same_side": 1}, {"N": 3, "D": 3, "handoff": 0, "open": 4, "msg": 2}, {"N": 4, "D": 2, "handoff": 0, "open_menu": [0, 5], "types": 1, "same_type_tasks": 1}] if tier == "quick" else [{"N": 5, "D": 4, "handoff": 1}, {"N": 4, "D": 3, "types": 2, "handoff": 1}, {"N": 4, "D": 3, "handoff": 1, "deferred": 1, "same_side": 1}, {"N": 5, "D": 3, "handoff": 0, "open_menu": [0, 5], "same_type_tasks": 1}]
    for base in cfgs:
        out += [dict(base, prefix=q) for q in enumerate_prefixes(body_E1, "X", {}, base, 3)]
    wide = {"wide": 1, "N": 0, "D": 0, "handoff": 0}
    out += [dict(wide, prefix=q) for q in enumerate_prefixes(body_E1, "X", {}, wide, 3)]
    return out


OBLIGATIONS = [
    Ob(
        "E1",
        E1,
        body_E1,
        "X",
        desc="of_type/descendants/type_tree/assertHasAction/assertHasMessage vs the parser's tree on every captured program with repeated types",
        functions=["LoggedAction.of_type", "LoggedAction.fromMessages", "LoggedAction.descendants", "LoggedAction.type_tree", "LoggedAction.succeeded", "LoggedMessage.of_type", "assertHasAction", "assertHasMessage", "assertContainsFields", "MemoryLogger.write"],
        shards=_shards,
        twin=[{"N": 4, "D": 3, "handoff": 1, "twin_label": "repeated-types"}],
        timeout={"quick": 100, "thorough": 1200},
        bounds={"quick": "one wide action with 21-33 direct children of which two (positions p in {2,3} and q in {10p..10p+2}) are actions with a child action; programs <= 4 ops (one action type: every action shares it; raise/hand-off included), and <= 3 ops with 2 solver-chosen types; <= 3 ops with deferred hand-offs (sub-task logged after its parent ended); <= 4 ops mixing start_action and nested start_task of the same action type (interleaved tasks in one logger); depth <= 3; 5 expectation kinds for assertHasAction (matching / wrong status / wrong value / only a later entry matches / a field the message lacks expected to be None)", "thorough": "<= 5 ops depth <= 4; <= 4 ops with 2 types"},
    ),
    Ob(
        "L1",
        L1,
        body_L1,
        "S",
        desc="fromMessages takes a message as own iff level[:-1] == action level, as a child's start iff it is two longer, shares the prefix and ends in 1",
        functions=["LoggedAction.fromMessages"],
        timeout={"quick": 200, "thorough": 400},
        path_timeout=60,
        bounds={"quick": "action level any list of <= 3 ints >= 1; message level any list of 1..4 ints >= 1"},
    ),
]
