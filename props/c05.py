"""C05 - concurrent threads and coroutines never leak action context into each other."""

import asyncio
import json

from engine.core import run, enumerate_prefixes
from engine.ob import Ob
from engine.sched import Sched, SchedThread, Deadlock

import eliot
from eliot import _output, _action, start_action, log_message, current_action, preserve_context
from eliot._output import Logger, FileDestination
from eliot.parse import Parser
from eliot._action import WrittenAction

PROPERTY = "C05"
NONTRIVIAL_RULE = (
    "A leaf is one interleaving (decision vector) of the worker programs; non-trivial when at least two context switches "
    "happened while a worker was inside an action; keyed by (shard, decision vector)."
)
EXPLANATION = (
    "E1: real threads, started from inside an action of a 'main' worker and joined before it ends, run nested-action "
    "programs; a solver-driven scheduler interleaves them at every call of eliot/_action.py's logging entry points "
    "(preemption bounded). E2: real asyncio tasks with nested actions spanning awaits; the order in which await gates open is "
    "solver-chosen (all orders). Oracle: current_action() in every thread/task equals that thread's/task's own reference "
    "stack at every step (new thread: none; new task: the creator's), every message is placed under the action current in "
    "its emitter, and the parsed forest is the same for every schedule up to sibling order."
)
ASSUMPTIONS = [
    "threads interleave only at calls of the public logging entry points of eliot/_action.py (call-granularity yield points)",
    "structured programs: spawned work is joined before the enclosing action ends",
    "contextvars / asyncio are the real ones (not stubbed)",
]

ACTION_FILE = _action.__file__
ENTRY_POINTS = {"start_action", "startTask", "log_message", "__enter__", "__exit__", "finish", "log", "continue_task", "serialize_task_id", "run", "context"}


def canon(node):
    if not isinstance(node, WrittenAction):
        return ("m", node.contents.get("message_type"), node.contents.get("who"))
    return ("a", node.action_type, node.status, tuple(sorted((canon(c) for c in node.children), key=repr)))


def forest_canon(messages):
    return tuple(sorted((canon(t.root()) for t in Parser.parse_stream(messages)), key=repr)), all(t.is_complete() for t in Parser.parse_stream(messages))


class _Escape(Exception):
    pass


class _YieldingFile(object):
    """Binary file object; every write() is atomic, a thread switch may follow it."""

    sched = None

    def __init__(self):
        self.chunks = []

    def write(self, data):
        if isinstance(data, str):
            raise TypeError("binary file")
        if isinstance(data, (bytearray, memoryview)):
            data = bytes(data)  # real binary files take any bytes-like object and copy it at once
        if data:
            self.chunks.append(bytes(data))
            if self.sched is not None:
                self.sched.yield_point("after file.write")

    def writelines(self, lines):
        for line in lines:
            self.write(line)

    def flush(self):
        pass


class Stack(object):
    """Reference stack of one thread / task."""

    def __init__(self, ctx, who, base=None):
        self.ctx = ctx
        self.who = who
        self.items = [base] if base is not None else []
        self.received = None

    def top(self):
        return self.items[-1] if self.items else None

    def check(self, where, sched=None):
        got = current_action()
        self.ctx.check(got is self.top(), "%s %s: current_action() is %r, its own stack top is %r%s", self.who, where, got and got._identification, self.top() and self.top()._identification, (" schedule " + sched.render()) if sched else "")

    def placed(self, received, n0, where):
        """Everything this thread emitted since index n0 with who == self.who sits under its current action."""
        for m in received[n0:]:
            if m.get("who") != self.who:
                continue


def program(stack, kind, sched=None):
    """A short nested-action program; checks its own context at every step."""
    who = stack.who
    stack.check("at start", sched)
    if kind == 0:
        with start_action(action_type="w:a", who=who) as a:
            stack.items.append(a)
            stack.check("inside w:a", sched)
            log_message("w:m", who=who)
            stack.check("after message", sched)
            with start_action(action_type="w:b", who=who) as b:
                stack.items.append(b)
                stack.check("inside w:b", sched)
                log_message("w:m2", who=who)
                stack.items.pop()
            stack.check("after w:b", sched)
            stack.items.pop()
    elif kind == 1:
        a = start_action(action_type="w:c", who=who)
        stack.check("after start_action without entering", sched)
        with a.context():
            stack.items.append(a)
            stack.check("inside context()", sched)
            log_message("w:m", who=who)
            stack.items.pop()
        stack.check("after context()", sched)
        a.finish()
        stack.check("after finish", sched)
    elif kind == 3:
        # the main thread created this action (inside main:A) and handed it over un-entered
        job = stack.handed
        with job:
            stack.items.append(job)
            stack.check("inside the handed-over action", sched)
            log_message("w:m", who=who)
            stack.items.pop()
        stack.check("after the handed-over action", sched)
        log_message("w:after", who=who)
    else:
        try:
            with start_action(action_type="w:f", who=who) as a:
                stack.items.append(a)
                log_message("w:m", who=who)
                stack.check("before raising", sched)
                stack.items.pop()
                raise ValueError("x")
        except ValueError:
            pass
        stack.check("after failed action", sched)
        log_message("w:after", who=who)
    stack.check("at end", sched)


def check_placement(ctx, received):
    """Every message sits directly under the action that its emitter had current: with the
    'who' field on actions and messages, a message/child of who=X must have a parent action of
    who=X (or be X's top level), except the documented inheritances handled by the caller."""
    by_key = {}
    for m in received:
        if "action_type" in m and m["action_status"] == "started":
            by_key[(m["task_uuid"], tuple(m["task_level"][:-1]))] = m
    return by_key


def body_E1(ctx):
    sh = ctx.shard
    received = []
    outfile = None
    if sh.get("file_dest"):
        # the threads share one JSON file destination; the scheduler may switch after any file.write()
        outfile = _YieldingFile()
        Logger._destinations.add(FileDestination(file=outfile))
    else:
        Logger._destinations.add(received.append)
    nworkers = sh.get("workers", 2)
    kinds = [ctx.choose(4 if sh.get("handover", 1) else 3, "program of worker %d" % i) for i in range(nworkers)]
    via = [ctx.choose(2, "plain thread / preserve_context %d" % i) if sh.get("preserve", 1) else 0 for i in range(nworkers)]
    sched = Sched(ctx, watch={ACTION_FILE: ENTRY_POINTS}, preemptions=sh.get("P", 2), granularity="call")
    if outfile is not None:
        outfile.sched = sched
    main_stack = Stack(ctx, "main")
    stacks = [Stack(ctx, "w%d" % i) for i in range(nworkers)]

    def main():
        main_stack.check("at start", sched)
        with start_action(action_type="main:A", who="main") as A:
            main_stack.items.append(A)
            threads = []
            for i in range(nworkers):
                if kinds[i] == 3:
                    stacks[i].handed = start_action(action_type="main:job", who="main", for_worker=i)
                    main_stack.check("after creating an action for w%d" % i, sched)
                def target(i=i):
                    program(stacks[i], kinds[i], sched)

                if via[i]:
                    # the wrapped callable continues A's tree in the other thread
                    inner = target

                    def wrapped(i=i, inner=inner):
                        a = current_action()
                        ctx.check(a is not None and a.task_uuid == A.task_uuid, "preserve_context did not restore the task in thread w%d", i)
                        stacks[i].items.append(a)
                        inner()
                        stacks[i].items.pop()
                        if sh.get("escape"):
                            raise _Escape("w%d" % i)  # the handed-over work fails: the exception leaves the wrapper

                    f = preserve_context(wrapped)

                    def runner(f=f, i=i):
                        ctx.check(current_action() is None, "new thread w%d starts with current action %r", i, current_action())
                        try:
                            f()
                        except _Escape:
                            pass
                        ctx.check(current_action() is None, "thread w%d ends with current action %r", i, current_action())

                    t = SchedThread(sched, target=runner, name="w%d" % i)
                else:
                    t = SchedThread(sched, target=target, name="w%d" % i)
                t.start()
                threads.append(t)
                main_stack.check("after starting w%d" % i, sched)
            log_message("main:m", who="main")
            main_stack.check("after own message", sched)
            with start_action(action_type="main:B", who="main") as B:
                main_stack.items.append(B)
                main_stack.check("inside main:B", sched)
                main_stack.items.pop()
            for t in threads:
                t.join()
                main_stack.check("after join", sched)
            # threads started one after another once the workers are gone (the OS hands their
            # identifiers out again): each starts with no current action and logs its own tree
            for k in range(int(sh.get("probes", 0))):
                def probe(k=k):
                    ctx.check(current_action() is None, "a thread started after the workers had ended begins with current action %r", current_action() and current_action()._identification)
                    log_message("probe:m", who="probe%d" % k)
                    ctx.check(current_action() is None, "probe thread ends with a current action")

                t = SchedThread(sched, target=probe, name="probe%d" % k)
                t.start()
                t.join()
                main_stack.check("after probe thread", sched)
            main_stack.items.pop()
        main_stack.check("at end", sched)

    sched.spawn(main, "main")
    try:
        sched.run()
    except Deadlock as e:
        ctx.fail("%s (%s)" % (e, sched.render()))
    for w in sched.workers:
        if w.exc is not None:
            raise w.exc
    if outfile is not None:
        blob = b"".join(outfile.chunks)
        ctx.check(blob.endswith(b"\n"), "the shared file does not end with a newline")
        for ln in blob.split(b"\n")[:-1]:
            try:
                d = json.loads(ln.decode("utf-8"))
            except Exception as e:
                ctx.fail("a line of the file shared by the threads is not JSON: %r (%s) (%s)" % (ln[:160], e, sched.render()))
            ctx.check(isinstance(d, dict), "a line of the shared file is not a JSON object: %r", ln[:160])
            received.append(d)
    # placement: an action/message of who=X sits under an action of who=X, except a worker's
    # outermost items: top-level (plain thread) or under eliot:remote_task under main:A (preserve_context)
    starts = {}
    for m in received:
        if "action_type" in m and m["action_status"] == "started":
            starts[(m["task_uuid"], tuple(m["task_level"][:-1]))] = m
    for m in received:
        lvl = m["task_level"]
        is_start = "action_type" in m and m["action_status"] == "started"
        own = (m["task_uuid"], tuple(lvl[:-1]))
        parent_key = (m["task_uuid"], tuple(lvl[:-2])) if is_start else own
        if is_start and len(lvl) == 1:
            continue  # a top-level action
        if not is_start and "action_type" in m:
            continue  # end messages belong to their own action by construction of the key
        parent = starts.get(parent_key)
        who = m.get("who")
        if parent is None:
            ctx.check(lvl == [1] and "action_type" not in m, "message %r has no enclosing action in the stream", m)
            continue
        pw = parent.get("who")
        if parent["action_type"] == "eliot:remote_task":
            continue  # worker items directly under the continued task
        if parent["action_type"] == "main:job":
            ctx.check(who == "w%d" % parent["for_worker"], "the action handed to w%d contains an item of %s", parent["for_worker"], who)
            continue
        if m.get("action_type") == "eliot:remote_task":
            ctx.check(pw == "main", "remote task attached under %r", parent)
            continue
        ctx.check(pw == who, "an item logged by %s landed inside an action of %s: %r under %r (%s)", who, pw, {k: m[k] for k in ("task_level", "who")}, {k: parent[k] for k in ("action_type", "task_level", "who")}, sched.render())
    fc, complete = forest_canon(received)
    ctx.check(complete, "not every task is complete")
    expected = expected_forest(kinds, via, "failed" if sh.get("escape") else "succeeded", int(sh.get("probes", 0)))
    ctx.check(fc == expected, "parsed forest %r differs from the schedule-independent expectation %r (%s)", fc, expected, sched.render())
    if sched.switches >= 3:
        ctx.nontrivial((json.dumps(sh, sort_keys=True), tuple(ctx.trace)))
        ctx.reached("interleaved")
    ctx.sample({"programs": kinds, "via_preserve_context": via, "schedule": sched.render(14), "switches": sched.switches})
    return received, sched


def _prog_canon(kind, who):
    if kind == 0:
        return [("a", "w:a", "succeeded", tuple(sorted([("m", "w:m", who), ("a", "w:b", "succeeded", (("m", "w:m2", who),))], key=repr)))]
    if kind == 1:
        return [("a", "w:c", "succeeded", (("m", "w:m", who),))]
    if kind == 3:
        return [("m", "w:after", who)]
    return [("a", "w:f", "failed", (("m", "w:m", who),)), ("m", "w:after", who)]


def expected_forest(kinds, via, remote_status="succeeded", probes=0):
    tasks = [("m", "probe:m", "probe%d" % k) for k in range(probes)]
    main_children = [("m", "main:m", "main"), ("a", "main:B", "succeeded", ())]
    for i, (k, v) in enumerate(zip(kinds, via)):
        who = "w%d" % i
        items = _prog_canon(k, who)
        if k == 3:
            main_children.append(("a", "main:job", "succeeded", (("m", "w:m", who),)))
        if v:
            main_children.append(("a", "eliot:remote_task", remote_status, tuple(sorted(items, key=repr))))
        else:
            tasks.extend(items)
    tasks.append(("a", "main:A", "succeeded", tuple(sorted(main_children, key=repr))))
    return tuple(sorted(tasks, key=repr))


def E1() -> bool:
    """
    post: _
    """
    return run(body_E1, "X", {})


# -- E2: asyncio tasks -----------------------------------------------------------------------
def body_E2(ctx):
    sh = ctx.shard
    received = []
    Logger._destinations.add(received.append)
    ntasks = sh.get("tasks", 2)
    nawaits = sh.get("awaits", 3)
    order = []
    cancelled = []
    progress = {i: [] for i in range(ntasks)}

    async def main():
        loop = asyncio.get_event_loop()
        waiting = {}
        arrived = asyncio.Event()
        top = Stack(ctx, "main")
        top.check("at start")
        with start_action(action_type="main:A", who="main") as A:
            top.items.append(A)

            async def gate(i, k):
                fut = loop.create_future()
                waiting[i] = fut
                arrived.set()
                await fut

            async def worker(i):
                try:
                    await worker_body(i)
                except asyncio.CancelledError:
                    # cancelled while suspended inside its action(s): every block this task had
                    # entered has been left, so its current action is again the one it started with
                    who = "c%d" % i
                    st = Stack(ctx, who, base=A)
                    st.check("in the cancellation handler")
                    log_message("c:cleanup", who=who)
                    st.check("after the clean-up message")

            async def worker_body(i):
                who = "c%d" % i
                st = Stack(ctx, who, base=A)  # a task inherits the creator's current action
                st.check("at task start")
                with start_action(action_type="c:a", who=who) as a:
                    st.items.append(a)
                    await gate(i, 0)
                    st.check("after first await")
                    if sh.get("shared"):
                        # several tasks inside the context() of one and the same action at once,
                        # each coming from its own outer action
                        with A.context():
                            st.items.append(A)
                            await gate(i, 10)
                            st.check("inside the shared action's context()")
                            st.items.pop()
                        st.check("after leaving the shared action's context()")
                    log_message("c:m", who=who)
                    progress[i].append("m")
                    if nawaits >= 2:
                        with start_action(action_type="c:b", who=who) as b:
                            progress[i].append("b-enter")
                            st.items.append(b)
                            await gate(i, 1)
                            st.check("after await inside c:b")
                            st.items.pop()
                        progress[i].append("b-exit")
                        st.check("after c:b")
                    if nawaits >= 3:
                        await gate(i, 2)
                        st.check("after third await")
                    st.items.pop()
                st.check("after c:a")

            tasks = [asyncio.ensure_future(worker(i)) for i in range(ntasks)]
            top.check("after creating tasks")
            while True:
                # let every runnable task run up to its next gate
                for _ in range(ntasks + 2):
                    await asyncio.sleep(0)
                top.check("while tasks are suspended")
                live = sorted(i for i, f in waiting.items() if not f.done())
                if not live:
                    break
                k = ctx.choose(len(live) * (2 if sh.get("cancel") and not cancelled else 1), "gate to open / task to cancel")
                i = live[k % len(live)]
                if k >= len(live):
                    cancelled.append(i)
                    order.append(-1 - i)
                    tasks[i].cancel()  # e.g. a TaskGroup sibling failed, or a timeout fired
                    continue
                order.append(i)
                waiting[i].set_result(None)
            await asyncio.gather(*tasks)
            top.check("after gather")
            log_message("main:m", who="main")
            top.items.pop()
        top.check("at end")

    loop = asyncio.new_event_loop()
    try:
        loop.run_until_complete(main())
    finally:
        loop.close()
    fc, complete = forest_canon(received)
    ctx.check(complete, "not every task is complete")
    per = [("m", "c:m", None)]
    expected_children = [("m", "main:m", "main")]
    for i in range(ntasks):
        who = "c%d" % i
        if i in cancelled:
            kids = [("m", "c:m", who)] if "m" in progress[i] else []
            if "b-enter" in progress[i]:
                kids.append(("a", "c:b", "succeeded" if "b-exit" in progress[i] else "failed", ()))
            expected_children.append(("a", "c:a", "failed", tuple(sorted(kids, key=repr))))
            expected_children.append(("m", "c:cleanup", who))
            continue
        kids = [("m", "c:m", who)]
        if nawaits >= 2:
            kids.append(("a", "c:b", "succeeded", ()))
        expected_children.append(("a", "c:a", "succeeded", tuple(sorted(kids, key=repr))))
    expected = (("a", "main:A", "succeeded", tuple(sorted(expected_children, key=repr))),)
    ctx.check(fc == expected, "parsed forest %r differs from the schedule-independent expectation %r (gate order %r)", fc, expected, order)
    switches = sum(1 for x, y in zip(order, order[1:]) if x != y)
    if switches >= 2:
        ctx.nontrivial(tuple(order))
        ctx.reached("interleaved")
    if cancelled:
        ctx.reached("cancelled")
    ctx.sample({"gate_order": order})
    return received


def E2() -> bool:
    """
    post: _
    """
    return run(body_E2, "X", {})


def _e1_shards(tier):
    cfgs = [{"workers": 2, "P": 1, "preserve": 1}, {"workers": 2, "P": 0, "preserve": 1, "escape": 1, "probes": 2, "handover": 0}] if tier == "quick" else [{"workers": 2, "P": 1, "preserve": 1}, {"workers": 2, "P": 2, "preserve": 0}, {"workers": 3, "P": 1, "preserve": 0}, {"workers": 2, "P": 1, "preserve": 1, "escape": 1, "probes": 2, "handover": 0}]
    out = []
    for base in cfgs:
        out += [dict(base, prefix=p) for p in enumerate_prefixes(body_E1, "X", {}, base, base["workers"] * (2 if base["preserve"] else 1))]
    return out


OBLIGATIONS = [
    Ob(
        "E1",
        E1,
        body_E1,
        "X",
        desc="threads spawned inside an action (plain or via preserve_context), interleaved at logging-call boundaries: per-thread context, placement, schedule-independent forest",
        functions=["current_action", "start_action", "Action.__enter__/__exit__", "Action.context", "Action.finish", "log_message", "preserve_context", "Action.continue_task"],
        shards=_e1_shards,
        twin=[{"workers": 2, "P": 1, "preserve": 1, "twin_label": "interleaved"}],
        timeout={"quick": 100, "thorough": 1500},
        bounds={"quick": "main + 2 worker threads, 4 worker programs each (one enters an action the main thread created and handed over), plain or preserve_context, <= 1 preemption (plus all forced switches) at call granularity; the same workers with the handed-over callable raising, followed by 2 threads started one after another once the workers have ended (forced switches only)", "thorough": "additionally 2 plain workers with <= 2 preemptions and 3 plain workers with <= 1; the raising hand-over with <= 1 preemption"},
    ),
    Ob(
        "E2",
        E2,
        body_E2,
        "X",
        desc="asyncio tasks created inside an action with nested actions spanning awaits: all gate orders",
        functions=["current_action", "start_action", "Action.__enter__/__exit__", "log_message"],
        shards={"quick": [{"tasks": 2, "awaits": 3}, {"tasks": 3, "awaits": 2}, {"tasks": 2, "awaits": 2, "shared": 1}, {"tasks": 2, "awaits": 3, "cancel": 1}], "thorough": [{"tasks": 2, "awaits": 3}, {"tasks": 3, "awaits": 3}, {"tasks": 3, "awaits": 2, "shared": 1}, {"tasks": 3, "awaits": 2, "cancel": 1}]},
        twin=[{"tasks": 2, "awaits": 3, "twin_label": "interleaved"}],
        timeout={"quick": 100, "thorough": 600},
        bounds={"quick": "2 tasks x 3 awaits (20 orders), 3 tasks x 2 awaits (90 orders), 2 tasks that additionally enter the shared parent action's context() across an await; 2 tasks x 3 awaits where one task is cancelled at any suspension point and logs a clean-up message; real asyncio loop", "thorough": "3 tasks x 3 awaits (1680 orders); cancellation with 3 tasks x 2 awaits"},
    ),
]
