"""C08 - every destination gets each message once, in order; faults isolated and reported."""

import json

from engine.core import run, enumerate_prefixes
from engine.ob import Ob

from eliot import _output, log_message, start_action, MessageType, Field
from eliot import add_destinations as eliot_add
from eliot._output import Destinations, Logger

PROPERTY = "C08"
NONTRIVIAL_RULE = (
    "E1 leaves are (number of destinations, message script, failure mask) triples given by the decision vector; "
    "non-trivial when at least one destination call failed; keyed by (shard, decision vector)."
)
EXPLANATION = (
    "1-3 recording destinations, each raising on a solver-chosen subset of its calls, receive 1-4 messages "
    "through Logger.write; a reference model of the fan-out (kept by the harness) predicts every destination's "
    "exact received sequence including eliot:destination_failure reports; L1 keeps exception text and field "
    "values symbolic."
)
ASSUMPTIONS = ["destinations raise only Exception subclasses (the property's quantifier)"]


class Boom(Exception):
    """The destinations' failure.  Instances made with unprintable=True have no text: str() raises
    (e.g. a __str__ formatting an attribute that is only set on some paths)."""

    unprintable = False

    def __str__(self):
        if self.unprintable:
            raise AttributeError("'Boom' object has no attribute 'detail'")
        return Exception.__str__(self)


def _text(e):
    """What a failure report says about e: its text, or eliot's documented stand-in."""
    try:
        return str(e)
    except Exception:
        return "eliot: unknown, str() raised exception"


class Rec(object):
    """Recording destination.  Instances compare equal to each other (like dataclass-style or
    empty-list-subclass destinations do): registration must go by identity, not equality."""

    def __eq__(self, other):
        return isinstance(other, Rec)

    def __hash__(self):
        return 1

    def __init__(self, ctx, name, budget, can_fail=True):
        self.ctx = ctx
        self.name = name
        self.got = []
        self.calls = 0
        self.budget = budget
        self.can_fail = can_fail
        self.fail_log = []

    def __call__(self, message):
        self.calls += 1
        self.got.append(dict(message))
        if self.can_fail and self.budget[0] > 0 and self.ctx.flag("fail %s#%d" % (self.name, self.calls)):
            self.budget[0] -= 1
            e = Boom("boom %s#%d" % (self.name, self.calls))
            if self.ctx.shard.get("unprintable") and self.calls % 2 == 1:
                e.unprintable = True
            self.fail_log.append((self.calls, e))
            raise e


def strip(m):
    return {k: v for k, v in m.items() if k not in ("timestamp", "task_uuid", "task_level")}


def body_E1(ctx):
    sh = ctx.shard
    nd = 1 + ctx.choose(sh.get("max_dests", 3), "number of destinations")
    budget = [sh.get("F", 4)]
    dests = [Rec(ctx, "d%d" % i, budget) for i in range(nd)]
    Logger._destinations.add(*dests)
    nm = 1 + ctx.choose(sh.get("max_msgs", 3), "number of messages")
    in_action = ctx.flag("inside an action") if sh.get("actions", 1) else False
    bad_typed = ctx.flag("message 0 is a typed message whose serializer raises") if sh.get("typed", 1) else False
    logger = Logger()
    sent = []

    def _raises(v):
        raise Boom("serializer")

    BAD = MessageType("t:bad", [Field("i", _raises, "")], "")

    def emit(i):
        if bad_typed and i == 0:
            BAD.log(i=i)  # withheld; eliot:traceback + eliot:serialization_failure are logged instead
        else:
            log_message("t:m%d" % i, i=i, payload={"k": [i]})

    if in_action and sh.get("finish_inside"):
        # the action is finished explicitly while it is still the current one: a failure on its
        # end message is reported like any other (the report lands under the finished action)
        act = start_action(action_type="t:act")
        with act.context():
            for i in range(nm):
                emit(i)
            act.finish()
    elif in_action:
        with start_action(action_type="t:act"):
            for i in range(nm):
                emit(i)
    else:
        for i in range(nm):
            emit(i)

    # --- reference model of the fan-out -------------------------------------------------
    # Walk the first destination's full view to learn the original message sequence, then
    # predict reports.  Every destination is called for every message (failing or not), so
    # all destinations must have received exactly the same sequence of dicts.
    first = [strip(m) for m in dests[0].got]
    for d in dests[1:]:
        ctx.check([strip(m) for m in d.got] == first, "destination %s received %r, destination d0 received %r", d.name, [strip(m) for m in d.got][:12], first[:12])
        ctx.check([(m["task_uuid"], m["task_level"]) for m in d.got] == [(m["task_uuid"], m["task_level"]) for m in dests[0].got], "destinations disagree on identification")
    # Predict the sequence: originals in order; after each original (once its fan-out is
    # complete) one report per destination that failed on it, in destination order; reports
    # are never reported.
    stream = dests[0].got
    idx = 0
    call_no = 0  # every destination has the same call numbering
    expected_kinds = []
    originals = (["start"] if in_action else []) + sum(([("eliot:traceback"), ("eliot:serialization_failure")] if (bad_typed and i == 0) else ["m%d" % i] for i in range(nm)), []) + (["end"] if in_action else [])
    fails_at = {d.name: dict(d.fail_log) for d in dests}
    pos = 0
    for what in originals:
        ctx.check(pos < len(stream), "stream ended early: %r missing", what)
        m = stream[pos]
        pos += 1
        call_no += 1
        if what == "start":
            ctx.check(m.get("action_status") == "started", "expected the start message at %d, got %r", pos, strip(m))
        elif what == "end":
            ctx.check(m.get("action_status") == "succeeded", "expected the end message at %d, got %r", pos, strip(m))
        elif what.startswith("eliot:"):
            ctx.check(m.get("message_type") == what, "expected %s at stream position %d, got %r", what, pos, strip(m))
        else:
            ctx.check(m.get("message_type") == "t:" + what, "expected %s at stream position %d, got %r", what, pos, strip(m))
        failing = [d for d in dests if call_no in fails_at[d.name]]
        orig = m
        orig_call = call_no
        for d in failing:
            e = fails_at[d.name][orig_call]
            ctx.check(pos < len(stream), "no report for the failure of %s on %s", d.name, what)
            r = stream[pos]
            pos += 1
            call_no += 1
            ctx.check(r.get("message_type") == "eliot:destination_failure", "expected a failure report after %s, got %r", what, strip(r))
            ctx.check(r.get("reason") == _text(e), "report reason %r, exception text %r", r.get("reason"), _text(e))
            ctx.check(r.get("exception") == "props.c08.Boom", "report exception %r", r.get("exception"))
            rendering = r.get("message")
            ctx.check(isinstance(rendering, str), "report carries no rendering of the message")
            for k, v in orig.items():
                if what.startswith("eliot:"):
                    break  # reports about eliot's own diagnostics: values were serialized (exception -> text) before delivery
                ctx.check(repr(k) in rendering and repr(v) in rendering, "rendering %r lacks field %r=%r of the affected message", rendering, k, v)
            # a destination failing on a *report* produces nothing further
    ctx.check(pos == len(stream), "%d unexpected extra messages: %r", len(stream) - pos, [strip(x) for x in stream[pos:]])
    n_fail = sum(len(d.fail_log) for d in dests)
    if n_fail:
        ctx.nontrivial((json.dumps(sh, sort_keys=True), tuple(ctx.trace)))
    if n_fail >= 2 and nd >= 2:
        ctx.reached("two-failures")
    ctx.sample({"destinations": nd, "messages": originals, "failed_calls": {d.name: [c for c, _ in d.fail_log] for d in dests}, "stream": [x.get("message_type") or x.get("action_status") for x in stream]})


def E1() -> bool:
    """
    post: _
    """
    return run(body_E1, "X", {})


# -- E3: failures while the start-up buffer is re-delivered (send() without a logger) ----------
def body_E3(ctx):
    sh = ctx.shard
    nbuf = 1 + ctx.choose(2, "buffered messages")
    nd = 1 + ctx.choose(2, "number of destinations")
    in_action = ctx.flag("add_destinations inside an action")
    budget = [sh.get("F", 2)]
    dests = [Rec(ctx, "d%d" % i, budget) for i in range(nd)]
    for i in range(nbuf):
        log_message("t:m%d" % i, i=i)
    if in_action:
        with start_action(action_type="t:setup"):
            eliot_add(*dests)
            log_message("t:inside", i=100)
    else:
        eliot_add(*dests)
    log_message("t:after", i=101)
    originals = ["t:m%d" % i for i in range(nbuf)] + (["start", "t:inside", "end"] if in_action else []) + ["t:after"]
    stream = dests[0].got
    for d in dests[1:]:
        ctx.check([strip(m) for m in d.got] == [strip(m) for m in stream], "destinations disagree: %r vs %r", [strip(m).get("message_type") for m in d.got], [strip(m).get("message_type") for m in stream])
    fails_at = {d.name: dict(d.fail_log) for d in dests}
    pos = 0
    call_no = 0
    for what in originals:
        ctx.check(pos < len(stream), "stream ended early: %r missing (got %r)", what, [strip(x).get("message_type") or x.get("action_status") for x in stream])
        m = stream[pos]
        pos += 1
        call_no += 1
        kind = m.get("message_type") or {"started": "start", "succeeded": "end"}.get(m.get("action_status"))
        ctx.check(kind == what, "expected %s at stream position %d, got %r", what, pos, strip(m))
        orig_call = call_no
        for d in dests:
            if orig_call in fails_at[d.name]:
                e = fails_at[d.name][orig_call]
                ctx.check(pos < len(stream), "no eliot:destination_failure report for the failure of %s on %s (add inside an action: %r); stream %r", d.name, what, in_action, [strip(x).get("message_type") or x.get("action_status") for x in stream])
                r = stream[pos]
                pos += 1
                call_no += 1
                ctx.check(r.get("message_type") == "eliot:destination_failure" and r.get("reason") == _text(e), "expected the report about %s, got %r", what, strip(r))
    ctx.check(pos == len(stream), "%d unexpected extra messages: %r", len(stream) - pos, [strip(x) for x in stream[pos:]])
    n_fail = sum(len(d.fail_log) for d in dests)
    if n_fail:
        ctx.nontrivial((in_action, nbuf, nd, tuple(ctx.trace)))
    if n_fail and in_action:
        ctx.reached("failed-redelivery-inside-action")
    ctx.sample({"buffered": nbuf, "destinations": nd, "add_inside_action": in_action, "failed_calls": {d.name: [c for c, _ in d.fail_log] for d in dests}, "stream": [x.get("message_type") or x.get("action_status") for x in stream]})


def E3() -> bool:
    """
    post: _
    """
    return run(body_E3, "X", {})


# -- twin for the recursion bound: a destination failing on every call --------------
def body_E2(ctx):
    class Always(object):
        def __init__(self):
            self.got = []

        def __call__(self, m):
            self.got.append(dict(m))
            raise Boom("always")

    bad = Always()
    good = []
    n_bad = 1 + ctx.choose(2, "broken destinations")
    bads = [Always() for _ in range(n_bad)]
    Logger._destinations.add(*(bads + [good.append]))
    nm = 1 + ctx.choose(3, "messages")
    for i in range(nm):
        log_message("t:m", i=i)
    kinds = [m["message_type"] for m in good]
    exp = []
    for i in range(nm):
        exp += ["t:m"] + ["eliot:destination_failure"] * n_bad
    ctx.check(kinds == exp, "healthy destination saw %r, expected %r", kinds, exp)
    for b in bads:
        ctx.check([m["message_type"] for m in b.got] == exp, "permanently broken destination saw %r", [m["message_type"] for m in b.got])
    ctx.nontrivial((n_bad, nm))
    ctx.reached()
    ctx.sample({"broken": n_bad, "messages": nm, "stream": kinds})


def E2() -> bool:
    """
    post: _
    """
    return run(body_E2, "X", {})


# -- E4: failures of two threads' messages at the same time ----------------------------------
def body_E4(ctx):
    from engine.sched import Sched, Deadlock

    sh = ctx.shard
    healthy = []
    which_fail = [ctx.flag("flaky fails on thread %d's message" % t) for t in range(2)]

    def flaky(m):
        if m.get("message_type") == "t:thread" and which_fail[m["t"]]:
            raise Boom("flaky on %d" % m["t"])

    def slow(m):
        # an ordinary second destination; being in _output-unrelated code it runs atomically,
        # the interleaving happens between the lines of Destinations.send around it
        pass

    Logger._destinations.add(flaky, slow, healthy.append)
    sched = Sched(ctx, watch={_output.__file__: {"send", "write"}}, preemptions=sh.get("P", 2))
    for t in range(2):
        sched.spawn((lambda t=t: log_message("t:thread", t=t)), "T%d" % t)
    try:
        sched.run()
    except Deadlock as e:
        ctx.fail(str(e))
    for w in sched.workers:
        ctx.check(w.exc is None, "logging thread died with %r", w.exc)
    originals = sorted(m["t"] for m in healthy if m.get("message_type") == "t:thread")
    ctx.check(originals == [0, 1], "healthy destination saw the originals %r", originals)
    reports = [m for m in healthy if m.get("message_type") == "eliot:destination_failure"]
    expected = sum(1 for f in which_fail if f)
    ctx.check(len(reports) == expected, "%d destination failures happened, %d eliot:destination_failure reports reached the healthy destination (schedule %s)", expected, len(reports), sched.render())
    for t in range(2):
        if which_fail[t]:
            ctx.check(any(r["reason"] == "flaky on %d" % t for r in reports), "no report about thread %d's message", t)
    if expected == 2 and sched.switches >= 2:
        ctx.nontrivial(tuple(ctx.trace))
        ctx.reached("both-fail-interleaved")
    ctx.sample({"failing": which_fail, "reports": len(reports), "schedule": sched.render(10)})


def E4() -> bool:
    """
    post: _
    """
    return run(body_E4, "X", {})


# (A Mode S lemma "healthy copy has x == v for every int v while another destination raises"
# was tried and is inconclusive: rendering the affected message for the report calls repr()
# on the symbolic value, which realises it - 752 paths in 120 s without exhausting.)


def _e1_shards(tier):
    base = {"max_dests": 3, "max_msgs": 3, "F": 3} if tier == "quick" else {"max_dests": 3, "max_msgs": 4, "F": 4}
    out = [dict(base, prefix=p) for p in enumerate_prefixes(body_E1, "X", {}, base, 4 if tier == "quick" else 5)]
    # failures whose exception has no text (str() raises): still exactly one report each
    base2 = dict(base, unprintable=1, max_msgs=2, max_dests=2) if tier == "quick" else dict(base, unprintable=1, max_msgs=3)
    out += [dict(base2, prefix=p) for p in enumerate_prefixes(body_E1, "X", {}, base2, 3)]
    base3 = dict(base, finish_inside=1, max_msgs=1, max_dests=2, typed=0) if tier == "quick" else dict(base, finish_inside=1, max_msgs=2, max_dests=2)
    out += [dict(base3, prefix=p) for p in enumerate_prefixes(body_E1, "X", {}, base3, 3)]
    return out


OBLIGATIONS = [
    Ob(
        "E1",
        E1,
        body_E1,
        "X",
        desc="all failure masks over 1-3 destinations x 1-4 messages (inside/outside an action): exact received sequences incl. reports",
        functions=["Destinations.send", "Destinations.add", "Logger.write", "_safe_unicode_dictionary", "log_message"],
        shards=_e1_shards,
        twin=[{"max_dests": 3, "max_msgs": 3, "F": 3, "twin_label": "two-failures"}],
        timeout={"quick": 100, "thorough": 1200},
        bounds={"quick": "<= 3 destinations, <= 3 messages (the first optionally a typed message whose serializer raises, i.e. replaced by its traceback + serialization_failure reports), optionally inside an action, <= 3 failing calls anywhere (incl. on reports); <= 2 destinations x 2 messages where every other failure is an exception whose str() raises; <= 2 destinations x 1 message inside an action that is finished explicitly while still current (context() + finish())", "thorough": "<= 4 messages, <= 4 failing calls"},
    ),
    Ob("E3", E3, body_E3, "X", desc="failures while the start-up buffer is re-delivered by add_destinations (inside or outside an action): one report per failure, same sequence for every destination", functions=["Destinations.add", "Destinations.send (logger=None)", "log_message", "Action.log"],
       twin=[{"F": 2, "twin_label": "failed-redelivery-inside-action"}], timeout={"quick": 100, "thorough": 300}, bounds={"quick": "1-2 buffered messages, 1-2 destinations, add_destinations inside/outside an action, <= 2 failing calls anywhere"}),
    Ob("E4", E4, body_E4, "X", desc="two threads log at once and a destination fails on either/both messages: one report per failure under every interleaving of Destinations.send", functions=["Destinations.send", "Logger.write", "log_message"],
       shards=lambda tier: [dict({"P": 1 if tier == "quick" else 2}, prefix=p) for p in enumerate_prefixes(body_E4, "X", {}, {"P": 1 if tier == "quick" else 2}, 5 if tier == "quick" else 7)], twin=[{"P": 1, "twin_label": "both-fail-interleaved"}], timeout={"quick": 100, "thorough": 900}, bounds={"quick": "2 threads x 1 message, 3 destinations, <= 1 preemption (plus forced switches) at line granularity in Destinations.send/Logger.write", "thorough": "<= 2 preemptions"}),
    Ob("E2", E2, body_E2, "X", desc="permanently broken destinations: one report per original message per broken destination, recursion depth 1", functions=["Destinations.send"], timeout={"quick": 60, "thorough": 60}, bounds={"quick": "1-2 always-failing destinations, 1-3 messages"}),
]
