"""C12 - startup buffering and (un)registration lose and duplicate no message."""

import ast
import hashlib
import inspect
import json
import os
import subprocess
import tempfile
import textwrap
import time

from engine.core import run, enumerate_prefixes, _pack
from engine.ob import Ob
from engine.sched import Sched, Deadlock

import eliot
from eliot import _output, log_message, add_destinations, remove_destination, add_global_fields
from eliot._output import BufferingDestination, Destinations, Logger

PROPERTY = "C12"
NONTRIVIAL_RULE = (
    "L1: SMT queries (each is one obligation over all pre-states); E1 leaves are histories of log/add/remove/global-field "
    "calls, non-trivial when messages were buffered before the first add or a destination was removed; E2 leaves are "
    "schedules of a logging thread against the first add, non-trivial when a switch happened inside add/send."
)
EXPLANATION = (
    "L1: BufferingDestination.__call__ is translated from its AST (inspect.getsource on every run) into an array-window "
    "model of a list; z3 and cvc5 must both answer unsat for 'length = min(len+1, cap)', 'content = last cap elements in "
    "order' and the loop-unwinding assertion, for every pre-state of 0..1000 elements; the translator is validated against "
    "the real class at the boundary sizes. E1: all histories within the bound through eliot's public functions against a "
    "reference model. E2: the hand-over from buffering to real destinations under the line-granularity scheduler."
)
ASSUMPTIONS = [
    "list.append/pop/len behave as the array-window model says (L1)",
    "E2: threads interleave between source lines of eliot/_output.py; destination callables run atomically",
]

CAP = 1000


# ----------------------------------------------------------------------------------------------
# L1: direct SMT encoding generated from the AST
# ----------------------------------------------------------------------------------------------
class Untranslatable(Exception):
    pass


def _translate(z3, UNROLL=2):
    """-> (pre-state vars, post-state exprs, unwinding condition, description)"""
    init_src = textwrap.dedent(inspect.getsource(BufferingDestination.__init__))
    init = ast.parse(init_src).body[0]
    assigns = [n for n in ast.walk(init) if isinstance(n, ast.Assign) and any(isinstance(t, ast.Attribute) and t.attr == "messages" for t in n.targets)]
    if len(assigns) != 1 or not (isinstance(assigns[0].value, ast.List) and not assigns[0].value.elts):
        raise Untranslatable("self.messages is not initialised to an empty list literal: the array-window model of list does not apply")
    src = textwrap.dedent(inspect.getsource(BufferingDestination.__call__))
    fn = ast.parse(src).body[0]
    if not isinstance(fn, ast.FunctionDef) or [a.arg for a in fn.args.args] != ["self", "message"]:
        raise Untranslatable("unexpected signature")
    A = z3.Array("A", z3.IntSort(), z3.IntSort())
    lo, hi, m = z3.Ints("lo hi m")
    st = {"A": A, "lo": lo, "hi": hi}
    unwinding = []

    def is_messages(node):
        return isinstance(node, ast.Attribute) and node.attr == "messages" and isinstance(node.value, ast.Name) and node.value.id == "self"

    def expr(node, st):
        if isinstance(node, ast.Constant) and isinstance(node.value, int) and not isinstance(node.value, bool):
            return z3.IntVal(node.value)
        if isinstance(node, ast.Call) and isinstance(node.func, ast.Name) and node.func.id == "len" and len(node.args) == 1 and is_messages(node.args[0]):
            return st["hi"] - st["lo"]
        if isinstance(node, ast.BinOp) and isinstance(node.op, (ast.Add, ast.Sub)):
            l, r = expr(node.left, st), expr(node.right, st)
            return l + r if isinstance(node.op, ast.Add) else l - r
        raise Untranslatable("expression " + ast.dump(node))

    def cond(node, st):
        if isinstance(node, ast.Compare) and len(node.ops) == 1:
            l, r = expr(node.left, st), expr(node.comparators[0], st)
            op = node.ops[0]
            table = {ast.Gt: l > r, ast.GtE: l >= r, ast.Lt: l < r, ast.LtE: l <= r, ast.Eq: l == r, ast.NotEq: l != r}
            for k, v in table.items():
                if isinstance(op, k):
                    return v
        if isinstance(node, ast.Call) and isinstance(node.func, ast.Name) and node.func.id == "len":
            return expr(node, st) != 0
        raise Untranslatable("condition " + ast.dump(node))

    def stmt(node, st):
        if isinstance(node, ast.Expr) and isinstance(node.value, ast.Constant):
            return st  # docstring
        if isinstance(node, ast.Pass):
            return st
        if isinstance(node, ast.Expr) and isinstance(node.value, ast.Call) and isinstance(node.value.func, ast.Attribute) and is_messages(node.value.func.value):
            call = node.value
            meth = call.func.attr
            if meth == "append" and len(call.args) == 1 and isinstance(call.args[0], ast.Name) and call.args[0].id == "message":
                return {"A": z3.Store(st["A"], st["hi"], m), "lo": st["lo"], "hi": st["hi"] + 1}
            if meth == "pop":
                if len(call.args) == 1 and isinstance(call.args[0], ast.Constant) and call.args[0].value == 0:
                    return {"A": st["A"], "lo": st["lo"] + 1, "hi": st["hi"]}
                if len(call.args) == 0 or (isinstance(call.args[0], ast.UnaryOp) and isinstance(call.args[0].op, ast.USub) and getattr(call.args[0].operand, "value", None) == 1):
                    return {"A": st["A"], "lo": st["lo"], "hi": st["hi"] - 1}
            raise Untranslatable("call " + ast.dump(call))
        if isinstance(node, ast.If) and not node.orelse:
            c = cond(node.test, st)
            st2 = block(node.body, st)
            return {k: z3.If(c, st2[k], st[k]) for k in st}
        if isinstance(node, ast.While) and not node.orelse:
            for _ in range(UNROLL):
                c = cond(node.test, st)
                st2 = block(node.body, st)
                st = {k: z3.If(c, st2[k], st[k]) for k in st}
            unwinding.append(cond(node.test, st))
            return st
        raise Untranslatable("statement " + ast.dump(node)[:200])

    def block(nodes, st):
        for n in nodes:
            st = stmt(n, st)
        return st

    post = block(fn.body, st)
    return (A, lo, hi, m), post, unwinding, hashlib.sha1(src.encode()).hexdigest()[:12], src


def _queries(z3):
    (A, lo, hi, m), post, unwinding, sha, src = _translate(z3)
    n = hi - lo
    pre = z3.And(lo >= 0, n >= 0, n <= CAP)
    n2 = post["hi"] - post["lo"]
    exp_len = z3.If(n + 1 <= CAP, n + 1, z3.IntVal(CAP))
    i = z3.Int("i")
    drop = (n + 1) - exp_len  # how many old elements fall out
    src_index = drop + i  # index into old ++ [m]
    expected_elem = z3.If(src_index < n, z3.Select(A, lo + src_index), m)
    qs = {
        "length": z3.And(pre, n2 != exp_len),
        "content": z3.And(pre, n2 == exp_len, i >= 0, i < n2, z3.Select(post["A"], post["lo"] + i) != expected_elem),
        "window-nonnegative": z3.And(pre, z3.Or(post["lo"] < 0, post["hi"] < post["lo"])),
    }
    for k, u in enumerate(unwinding):
        qs["unwinding-%d" % k] = z3.And(pre, u)
    return qs, (A, lo, hi, m), post, sha, src


def _concrete_eval(z3, n):
    """Evaluate the encoding on a concrete pre-state [0, 1, .., n-1] + message n."""
    (A, lo, hi, m), post, unwinding, sha, src = _translate(z3, UNROLL=4)
    j = z3.Int("j")
    ident = z3.Lambda([j], j)  # the pre-state array: A[j] == j
    sub = [(A, ident), (lo, z3.IntVal(0)), (hi, z3.IntVal(n)), (m, z3.IntVal(n))]

    def ev(e):
        r = z3.simplify(z3.substitute(e, *sub))
        if not z3.is_int_value(r):
            s = z3.Solver()
            v = z3.Int("v")
            s.add(v == r)
            assert s.check() == z3.sat
            r = s.model().eval(v, model_completion=True)
        return r.as_long()

    plo, phi = ev(post["lo"]), ev(post["hi"])
    items = [ev(z3.Select(post["A"], z3.IntVal(k))) for k in (plo, plo + 1, phi - 2, phi - 1) if plo <= k < phi]
    return phi - plo, items


def _real_eval(n):
    b = BufferingDestination()
    b.messages.extend(range(n))
    b(n)
    msgs = list(b.messages)
    k = len(msgs)
    idx = [j for j in (0, 1, k - 2, k - 1) if 0 <= j < k]
    # same de-duplicated positions as _concrete_eval
    pos = []
    for j in (0, 1, k - 2, k - 1):
        if 0 <= j < k:
            pos.append(j)
    return k, [msgs[j] for j in pos]


def smt_L1(tier):
    import z3

    t0 = time.time()
    out = {"status": "confirmed", "queries": [], "solver_results": {}, "num_paths": 0, "paths_done": 0}
    try:
        qs, vars_, post, sha, src = _queries(z3)
    except Untranslatable as e:
        return {"status": "unknown", "note": "translator does not know this statement form: %s" % e, "num_paths": 0}
    out["encoded_source_sha"] = sha
    # translator validation against the real class
    validated = []
    for n in (0, 1, 2, CAP - 1, CAP, CAP + 1):
        enc = _concrete_eval(z3, n)
        real = _real_eval(n)
        validated.append({"n": n, "encoding": enc, "real": real})
        if (enc[0], list(enc[1])) != (real[0], list(real[1])):
            return {"status": "error", "error": "translator validation failed at n=%d: encoding %r, real class %r" % (n, enc, real)}
    out["validated_points"] = validated
    scratch_root = os.path.join(os.path.dirname(os.path.dirname(os.path.abspath(__file__))), ".scratch")
    os.makedirs(scratch_root, exist_ok=True)
    tmpdir = tempfile.mkdtemp(prefix="c12smt-", dir=scratch_root)  # not /tmp: see engine/vcheck.py
    try:
        for name, q in qs.items():
            s = z3.Solver()
            s.set("timeout", 60000)
            s.add(q)
            r = str(s.check())
            smt2 = "(set-logic ALL)\n" + s.to_smt2()
            path = os.path.join(tmpdir, name + ".smt2")
            with open(path, "w") as f:
                f.write(smt2)
            try:
                p = subprocess.run(["cvc5", "--lang", "smt2", "--tlimit=60000", path], capture_output=True, text=True, timeout=90)
                r2 = (p.stdout.strip().splitlines() or ["?"])[0]
                if "(error" in p.stdout or "error" in p.stderr.lower():
                    r2 = "error: " + (p.stdout + p.stderr)[:200]
            except Exception as e:
                r2 = "unavailable: %r" % (e,)
            out["queries"].append(name)
            out["solver_results"][name] = {"z3": r, "cvc5": r2}
            out["num_paths"] += 1
            if r == "sat":
                mod = s.model()
                A, lo, hi, m = vars_
                n = mod.eval(hi - lo, model_completion=True).as_long()
                out["status"] = "refuted"
                out["failure"] = {"params": _pack({"n": n}), "params_repr": repr({"n": n}), "trace": [], "labels": [], "msg": "SMT query '%s' is satisfiable: pre-state with %d buffered messages violates the buffer specification (z3 model; cvc5 says %s)" % (name, n, r2), "sig": None, "twin": False}
                break
            if r != "unsat" or r2 != "unsat":
                out["status"] = "unknown"
                out["note"] = "query %s: z3=%s cvc5=%s" % (name, r, r2)
            else:
                out["paths_done"] += 1
    finally:
        import shutil

        shutil.rmtree(tmpdir, ignore_errors=True)
    out["samples"] = [{"obligation": "for all pre-states 0<=len<=%d: %s" % (CAP, k), "result": v} for k, v in out["solver_results"].items()]
    out["nontrivial_keys"] = ["smt:" + k for k in out["queries"]]
    out["nontrivial_paths"] = len(out["queries"])
    out["solver_cpu_s"] = round(time.time() - t0, 3)
    return out


def body_L1_replay(ctx, n):
    """Replays an SMT counterexample (pre-state size n) on the real class."""
    b = BufferingDestination()
    old = list(range(n))
    b.messages.extend(old)  # the real container, whatever it is
    b("new")
    exp = (old + ["new"])[-CAP:]
    ctx.check(list(b.messages) == exp, "with %d buffered messages, one more call leaves %d messages %r..%r; expected the last %d of old+[new]", n, len(b.messages), b.messages[:2], b.messages[-2:], CAP)


# ----------------------------------------------------------------------------------------------
# E1: histories through the public API
# ----------------------------------------------------------------------------------------------
class RecDest(object):
    def __init__(self, name):
        self.name = name
        self.got = []

    def __call__(self, m):
        self.got.append(dict(m))


def body_E1(ctx):
    sh = ctx.shard
    H = sh.get("H", 5)
    dests = [RecDest("d%d" % i) for i in range(3)]
    expected = {d.name: [] for d in dests}
    registered = []
    any_added = False
    buffered = []
    globs = {}
    n_logged = 0
    script = []
    flags = set()
    for step in range(H):
        ops = ["stop", "log", "add1", "add2", "remove", "global", "add0"]
        if sh.get("bulk", 1) and step == 0:
            ops.append("bulk")
        op = ops[ctx.choose(len(ops), "op")]
        if op == "stop":
            break
        script.append(op)
        if op in ("log", "bulk"):
            count = 1 if op == "log" else CAP + 1 + ctx.choose(3, "bulk size - 1001")
            if op == "bulk":
                flags.add("bulk")
            for _ in range(count):
                i = n_logged
                n_logged += 1
                try:
                    log_message("t:m", i=i)
                except Exception as e:
                    ctx.fail("log_message raised %r in history %r" % (e, script))
                if not any_added:
                    buffered.append(i)
                    del buffered[:-CAP]
                else:
                    for d in registered:
                        expected[d.name].append((i, dict(globs)))
        elif op == "add0":
            add_destinations()  # e.g. add_destinations(*configured) with an empty configuration
            if not any_added:
                any_added = True  # buffering ends with the first call, whatever it names
                buffered = []
        elif op in ("add1", "add2"):
            free = [d for d in dests if d not in registered]
            if len(free) < (1 if op == "add1" else 2):
                script.pop()
                continue
            k = ctx.choose(len(free), "which destination")
            new = [free[k]] if op == "add1" else [free[k], free[(k + 1) % len(free)]]
            add_destinations(*new)
            registered.extend(new)
            if not any_added:
                any_added = True
                if buffered:
                    flags.add("buffered-delivered")
                for b in buffered:
                    for d in registered:
                        expected[d.name].append((b, dict(globs)))
                buffered = []
        elif op == "remove":
            if not registered:
                try:
                    remove_destination(dests[0])
                    ctx.fail("removing an unregistered destination did not raise ValueError")
                except ValueError:
                    pass
                continue
            k = ctx.choose(len(registered), "remove which")
            remove_destination(registered[k])
            del registered[k]
            flags.add("removed")
        else:
            key = "g%d" % ctx.choose(2, "global key")
            globs[key] = step
            add_global_fields(**{key: step})
    for d in dests:
        got = [(m["i"], {k: v for k, v in m.items() if k.startswith("g")}) for m in d.got]
        ctx.check(got == expected[d.name], "destination %s received %r, the reference model expects %r (history %r)", d.name, got[:8] + (["..."] if len(got) > 8 else []), expected[d.name][:8], script)
    if flags:
        ctx.nontrivial((json.dumps(sh, sort_keys=True), tuple(ctx.trace)))
    if "buffered-delivered" in flags and "removed" in flags:
        ctx.reached("buffer-and-remove")
    ctx.sample({"history": script, "received": {d.name: len(d.got) for d in dests}})


def E1() -> bool:
    """
    post: _
    """
    return run(body_E1, "X", {})


# ----------------------------------------------------------------------------------------------
# E2: hand-over race
# ----------------------------------------------------------------------------------------------
OUT_FILE = _output.__file__


def body_E2(ctx):
    sh = ctx.shard
    nbuf = sh.get("buffered", 1)
    nlog = sh.get("logged", 2)
    d = RecDest("d")
    for i in range(nbuf):
        log_message("t:m", i=i)
    sched = Sched(ctx, watch={OUT_FILE: {"add", "send", "write", "__call__"}}, preemptions=sh.get("P", 3))
    returned = []

    def logger_thread():
        for i in range(nbuf, nbuf + nlog):
            log_message("t:m", i=i)
            returned.append(i)

    def adder():
        add_destinations(d)

    sched.spawn(logger_thread, "L")
    sched.spawn(adder, "A")
    try:
        sched.run()
    except Deadlock as e:
        ctx.fail("%s" % e)
    for w in sched.workers:
        ctx.check(w.exc is None, "worker %s died with %r", w.name, w.exc)
    got = [m["i"] for m in d.got]
    allmsgs = list(range(nbuf + nlog))
    # Where was the logging thread, relative to the adder, when it handed a message to the
    # start-up buffer?  (function-granular, read off the schedule)  The known defect covers
    # specific windows only; a loss in any other window is a different violation.
    steps = sched.log
    a_idx = [k for k, (w, where) in enumerate(steps) if w == "A"]
    a_send = [k for k in a_idx if steps[k][1].startswith("send:")]
    # split the logging thread's steps per message (a new message starts when it enters Logger.write)
    segments, cur, prev_fn = [], None, None
    for k, (w, where) in enumerate(steps):
        if w != "L":
            continue
        fn = where.split(":")[0]
        if fn == "write" and prev_fn != "write":
            cur = []
            segments.append(cur)
        if cur is not None:
            cur.append((k, fn))
        prev_fn = fn
    lost = sorted(set(allmsgs) - set(got))
    phases = set()
    for mid in lost:
        j = mid - nbuf
        seg = segments[j] if 0 <= j < len(segments) else []
        buf = [k for k, fn in seg if fn == "__call__"]
        if not buf:
            phases.add("found-no-destination")  # read Destinations._destinations while it was empty
            continue
        # the log entry says where the thread paused *before* executing that line; the append
        # itself runs during the thread's next turn, which ends with its next log entry
        later = [kk for kk, fn in seg if kk > buf[0]] + [kk for kk, (w, _) in enumerate(steps) if w == "L" and kk > buf[0]]
        k = min(later) if later else len(steps)
        if not a_idx or k < a_idx[0]:
            phases.add("buffered-before-add")
        elif a_send and a_send[0] < k < a_idx[-1]:
            phases.add("buffered-during-redelivery")
        elif k > a_idx[-1]:
            phases.add("buffered-after-add-returned")
        else:
            phases.add("buffered-while-add-swaps-the-list")
    kind = "duplicate" if len(got) != len(set(got)) else ("lost" if lost else ("out-of-order" if got != sorted(got) else "ok"))
    sig = "C12:handover-race:%s%s" % (kind, (":" + "+".join(sorted(phases))) if phases else "")
    ctx.check(len(got) == len(set(got)), "a message was delivered twice across the hand-over: %r (schedule %s)", got, sched.render(), sig=sig)
    ctx.check(sorted(got) == allmsgs, "messages %r were lost across the hand-over: destination received %r (schedule %s)", sorted(set(allmsgs) - set(got)), got, sched.render(), sig=sig)
    ctx.check(got == sorted(got), "messages reached the new destination out of order: %r (schedule %s)", got, sched.render(), sig=sig)
    if sched.switches >= 2:
        ctx.nontrivial(tuple(ctx.trace))
        ctx.reached("raced")
    ctx.sample({"buffered": nbuf, "logged": nlog, "received": got, "schedule": sched.render(10)})


def E2() -> bool:
    """
    post: _
    """
    return run(body_E2, "X", {})


def _e1_shards(tier):
    base = {"H": 4, "bulk": 1} if tier == "quick" else {"H": 5, "bulk": 1}
    out = []
    for p in enumerate_prefixes(body_E1, "X", {}, base, 2 if tier == "quick" else 3):
        if p and p[0] == 7:  # bulk histories are expensive per path: split them further
            out += [dict(base, prefix=q) for q in enumerate_prefixes(body_E1, "X", {}, dict(base, prefix=None), len(p) + 2) if q[: len(p)] == p]
        else:
            out.append(dict(base, prefix=p))
    return out


# ----------------------------------------------------------------------------------------------
# E3: remove_destination called while a message is being delivered
# ----------------------------------------------------------------------------------------------
def body_E3(ctx):
    """Only the clause 'a removed destination receives nothing further': three registered
    destinations; while handling its k-th message, destination r calls remove_destination(j)
    (j may be r itself, an earlier or a later one).  From the moment that call has returned, j is
    not called again.  (What the *other* destinations receive for the message in flight is not
    asserted here: registry changes during a delivery are outside C08's quantifier.)"""
    r = ctx.choose(3, "destination that removes")
    j = ctx.choose(3, "destination that is removed")
    k = ctx.choose(3, "on its k-th message")
    events = []
    state = {"removed_at": None, "error": None}
    dests = []

    def mk(idx):
        def dest(m):
            events.append((idx, m.get("i"), m.get("message_type")))
            if idx == r and state["removed_at"] is None and sum(1 for e in events if e[0] == r) == k + 1:
                try:
                    remove_destination(dests[j])
                except Exception as e:  # noqa
                    state["error"] = e
                state["removed_at"] = len(events)

        return dest

    dests.extend(mk(i) for i in range(3))
    add_destinations(*dests)
    for i in range(4):
        try:
            log_message("t:m", i=i)
        except Exception as e:
            ctx.fail("log_message raised %r while destination %d removed destination %d" % (e, r, j))
    ctx.check(state["error"] is None, "remove_destination raised %r inside a destination", state["error"])
    ctx.check(state["removed_at"] is not None, "the removal never happened")
    late = [e for e in events[state["removed_at"]:] if e[0] == j]
    ctx.check(not late, "destination %d was removed by destination %d (during message %d), remove_destination had returned, and it was still called with %r", j, r, k, late)
    ctx.check(not any(e[2] == "eliot:destination_failure" for e in events), "a failure report appeared although no destination raised: %r", events)
    ctx.nontrivial((r, j, k))
    ctx.reached()
    ctx.sample({"remover": r, "removed": j, "during_message": k, "calls": len(events)})


def E3() -> bool:
    """
    post: _
    """
    return run(body_E3, "X", {})



OBLIGATIONS = [
    Ob("L1", None, body_L1_replay, "X", desc="BufferingDestination.__call__: len' = min(len+1, 1000), content = last len' elements of old+[m] in order, loop exits - SMT encoding generated from the AST, decided by z3 and cvc5", functions=["BufferingDestination.__call__"], smt=smt_L1,
       timeout={"quick": 200, "thorough": 200}, bounds={"quick": "every pre-state with 0..1000 buffered messages (window lower bound any integer >= 0), every message; while-loop unrolled twice with an unwinding assertion"},
       assumptions=["list append/pop(0)/pop()/len modelled as an integer-indexed array window [lo, hi)"]),
    Ob("E1", E1, body_E1, "X", desc="histories of log / add_destinations(0, 1 or 2 destinations) / remove_destination / add_global_fields / bulk log (1001-1003 messages, as first operation) against a reference model", functions=["Destinations.add", "Destinations.remove", "Destinations.send", "Destinations.addGlobalFields", "BufferingDestination.__call__", "eliot.add_destinations", "eliot.remove_destination", "eliot.add_global_fields"],
       shards=_e1_shards, twin=[{"H": 4, "bulk": 1, "twin_label": "buffer-and-remove"}], timeout={"quick": 100, "thorough": 1500}, path_timeout=120,
       bounds={"quick": "histories of <= 4 operations over 3 destinations, 2 global keys", "thorough": "<= 5 operations"}),
    Ob("E2", E2, body_E2, "X", desc="a logging thread against the thread performing the first add_destinations, line granularity in eliot/_output.py", functions=["Destinations.add", "Destinations.send", "Logger.write", "BufferingDestination.__call__"],
       shards={"quick": [{"buffered": 1, "logged": 1, "P": 2}, {"buffered": 1, "logged": 2, "P": 1}], "thorough": [{"buffered": 1, "logged": 2, "P": 2}, {"buffered": 2, "logged": 1, "P": 3}]}, twin=[{"buffered": 1, "logged": 1, "P": 2, "twin_label": "raced"}], timeout={"quick": 100, "thorough": 900},
       bounds={"quick": "1 buffered + 1 concurrently logged message with <= 2 preemptions; 1 + 2 with <= 1", "thorough": "1 + 2 with <= 2 preemptions; 2 + 1 with <= 3"}),
    Ob("E3", E3, body_E3, "X", desc="remove_destination called from inside a destination while a message is being delivered: once it has returned the removed destination is not called again", functions=["Destinations.send", "Destinations.remove"],
       timeout={"quick": 60, "thorough": 60}, bounds={"quick": "3 destinations; remover x removed x message number: 27 cases, 4 messages logged; only the removed destination's calls are asserted"}),
]
