"""C02 - every message is uniquely and contiguously placed by task_uuid/task_level.

Lemmas L1-L7 (Mode S): one inductive step of the per-action position counter
from an arbitrary valid action state (symbolic level, symbolic counter).
E1/E2 (Mode X) are added by props/c02_explore (see OBLIGATIONS at the bottom).
"""

import sys
from typing import List

import json

from engine.core import run, clen, enumerate_prefixes
from engine.ob import Ob

from eliot._action import Action, TaskLevel
from eliot import _output

PROPERTY = "C02"

NONTRIVIAL_RULE = (
    "Lemma leaves are keyed by (counter is fresh | already used, depth of the action's level); "
    "exploration leaves by their decision vector, non-trivial when the program has >= 2 actions "
    "or a failing destination was hit."
)
EXPLANATION = (
    "Inductive step lemmas over Action._nextTaskLevel/_start/child/log/finish/serialize_task_id "
    "proved by z3 for every level of depth <= 4 and every counter value, plus solver-enumerated "
    "programs with failing destinations checked against a contiguity/uniqueness oracle."
)
ASSUMPTIONS = [
    "uuid4() returns pairwise distinct strings without '@' (stubbed by a per-path counter, except in the real_uuid shards of E1 where the code under test draws its own task ids while the program re-seeds the global PRNG before every operation)",
    "time.time() returns a float (stubbed by a strictly increasing counter)",
]

WRITES = []


class MonAction(Action):
    """Records who assigns the position counter (only _nextTaskLevel may)."""

    def __setattr__(self, name, value):
        if name in ("_last_child", "_task_level"):
            WRITES.append((name, sys._getframe(1).f_code.co_name))
        object.__setattr__(self, name, value)


def _pre(ctx, level, k):
    ctx.assume(len(level) <= 4)
    for x in level:
        ctx.assume(x >= 1)
    ctx.assume(k >= 0)


def _mk(level, k):
    """Arbitrary valid action state: level, and counter k (0 = nothing handed out yet)."""
    del WRITES[:]
    received = []
    _output.Logger._destinations.add(received.append)
    a = MonAction(None, "uuid-A", TaskLevel(level=list(level)), "t:act")
    if k > 0:
        a._last_child = TaskLevel(level=list(level) + [k])
    del WRITES[:]
    return a, received


def _inv(ctx, a, level, k, what):
    """Representation invariant I after k hand-outs."""
    if k == 0:
        ctx.check(a._last_child is None, "%s: counter should be untouched", what)
    else:
        ctx.check(a._last_child is not None and a._last_child._level == list(level) + [k], "%s: counter is %r, expected %r", what, a._last_child and a._last_child._level, list(level) + [k])
    ctx.check(a._task_level._level == list(level), "%s: action's own level changed to %r", what, a._task_level._level)
    for name, who in WRITES:
        ctx.check(who in ("_nextTaskLevel", "__init__"), "%s: %s assigned by %s", what, name, who)


def _key(ctx, level, k):
    d = clen(level)
    fresh = True if k == 0 else False
    ctx.nontrivial(("fresh" if fresh else "used", d))
    ctx.sample({"level": "symbolic, depth %d" % d, "k": "0" if fresh else "symbolic >= 1"})


# -- L1 -----------------------------------------------------------------------
def body_L1(ctx, level, k):
    _pre(ctx, level, k)
    a, _ = _mk(level, k)
    own = a._task_level._level
    r = a._nextTaskLevel()
    ctx.check(r._level == list(level) + [k + 1], "_nextTaskLevel returned %r for level %r counter %r", r._level, level, k)
    ctx.check(r._level is not own, "returned level aliases the action's own level list")
    _inv(ctx, a, level, k + 1, "after _nextTaskLevel")
    r2 = a._nextTaskLevel()
    ctx.check(r._level == list(level) + [k + 1], "first hand-out changed after the second one: %r", r._level)
    ctx.check(r2._level == list(level) + [k + 2], "second hand-out %r", r2._level)
    _key(ctx, level, k)
    ctx.reached()


def L1(level: List[int], k: int) -> bool:
    """
    post: _
    """
    return run(body_L1, "S", dict(level=level, k=k))


# -- L2: _start -----------------------------------------------------------------
def body_L2(ctx, level, v):
    _pre(ctx, level, 0)
    a, received = _mk(level, 0)
    a._start({"x": v})
    ctx.check(len(received) == 1, "start wrote %d messages", len(received))
    m = received[0]
    ctx.check(m["task_level"] == list(level) + [1], "start level %r", m["task_level"])
    ctx.check(m["action_status"] == "started" and m["task_uuid"] == "uuid-A" and m["action_type"] == "t:act", "start identification %r", m)
    ctx.check(type(m["timestamp"]) is float, "timestamp %r", m["timestamp"])
    ctx.check(m["x"] == v, "field value changed")
    _inv(ctx, a, level, 1, "after _start")
    _key(ctx, level, 0)
    ctx.reached()


def L2(level: List[int], v: int) -> bool:
    """
    post: _
    """
    return run(body_L2, "S", dict(level=level, v=v))


# -- L3: child ---------------------------------------------------------------------
def body_L3(ctx, level, k):
    _pre(ctx, level, k)
    a, received = _mk(level, k)
    c = a.child(None, "t:child")
    ctx.check(type(c) is MonAction, "child class")
    ctx.check(c._task_level._level == list(level) + [k + 1], "child level %r", c._task_level._level)
    ctx.check(c._identification["task_uuid"] == "uuid-A", "child uuid")
    ctx.check(c._last_child is None, "child counter not fresh")
    ctx.check(len(received) == 0, "child() wrote a message")
    _inv(ctx, a, level, k + 1, "after child()")
    # later hand-outs in the parent must not disturb the level given to the child
    a._nextTaskLevel()
    c._nextTaskLevel()
    ctx.check(c._task_level._level == list(level) + [k + 1], "child level changed by later hand-outs: %r", c._task_level._level)
    ctx.check(a._last_child._level == list(level) + [k + 2], "parent counter disturbed by child's hand-out: %r", a._last_child._level)
    ctx.check(c._last_child._level == list(level) + [k + 1, 1], "child's first position %r", c._last_child._level)
    _key(ctx, level, k)
    ctx.reached()


def L3(level: List[int], k: int) -> bool:
    """
    post: _
    """
    return run(body_L3, "S", dict(level=level, k=k))


# -- L4: log -------------------------------------------------------------------------
def body_L4(ctx, level, k, v):
    _pre(ctx, level, k)
    a, received = _mk(level, k)
    a.log("t:msg", x=v)
    ctx.check(len(received) == 1, "log wrote %d messages", len(received))
    m = received[0]
    ctx.check(m["task_level"] == list(level) + [k + 1], "message level %r", m["task_level"])
    ctx.check(m["task_uuid"] == "uuid-A" and m["message_type"] == "t:msg" and "action_type" not in m, "message identification")
    ctx.check(type(m["timestamp"]) is float, "timestamp")
    ctx.check(m["x"] == v, "field value changed")
    _inv(ctx, a, level, k + 1, "after log()")
    _key(ctx, level, k)
    ctx.reached()


def L4(level: List[int], k: int, v: int) -> bool:
    """
    post: _
    """
    return run(body_L4, "S", dict(level=level, k=k, v=v))


# -- L5: finish --------------------------------------------------------------------
def body_L5(ctx, level, k, fail):
    _pre(ctx, level, k)
    a, received = _mk(level, k)
    exc = ValueError("boom") if fail else None
    a.finish(exc)
    ctx.check(len(received) == 1, "finish wrote %d messages", len(received))
    m = received[0]
    ctx.check(m["task_level"] == list(level) + [k + 1], "end level %r", m["task_level"])
    ctx.check(m["action_status"] == ("failed" if fail else "succeeded"), "end status %r", m["action_status"])
    ctx.check(m["task_uuid"] == "uuid-A" and m["action_type"] == "t:act", "end identification")
    _inv(ctx, a, level, k + 1, "after finish()")
    a.finish()
    a.finish(ValueError("again"))
    ctx.check(len(received) == 1, "repeated finish wrote messages")
    _inv(ctx, a, level, k + 1, "after repeated finish()")
    _key(ctx, level, k)
    ctx.reached()


def L5(level: List[int], k: int, fail: bool) -> bool:
    """
    post: _
    """
    return run(body_L5, "S", dict(level=level, k=k, fail=fail))


# -- L7: order ---------------------------------------------------------------------
def body_L7(ctx, level, j, k, m):
    ctx.assume(len(level) <= 4)
    for x in level:
        ctx.assume(x >= 1)
    ctx.assume(1 <= j < k)
    ctx.assume(m >= 1)
    base = list(level)
    a = TaskLevel(level=base + [j])
    b = TaskLevel(level=base + [k])
    inner = TaskLevel(level=base + [j, m])
    first = TaskLevel(level=base + [j, 1])
    nxt = TaskLevel(level=base + [j + 1])
    ctx.check(a < b and not (b < a) and a <= b and b > a and b >= a and a != b, "siblings not ordered by position")
    ctx.check(inner < nxt and inner > a, "a child's sub-tree is not between its neighbours")
    ctx.check(first <= inner, "a child's start is not first in its sub-tree")
    ctx.check(TaskLevel(level=base + [j]) == a and not (TaskLevel(level=base + [j]) != a), "equality")
    ctx.check(a.next_sibling() == TaskLevel(level=base + [j + 1]) and a.child() == first, "next_sibling/child")
    ctx.check(inner.parent() == a and a.parent() == TaskLevel(level=base), "parent()")
    d = clen(level)
    ctx.nontrivial(d)
    ctx.sample({"level": "symbolic, depth %d" % d, "j,k,m": "symbolic, 1 <= j < k, m >= 1"})
    ctx.reached()


def L7(level: List[int], j: int, k: int, m: int) -> bool:
    """
    post: _
    """
    return run(body_L7, "S", dict(level=level, j=j, k=k, m=m))


# -- E1: programs with a failing destination next to a healthy one (Mode X) -------------
from engine import interp as I


class FlakyDestination(object):
    """Raises on a solver-chosen subset of its calls (at most F)."""

    def __init__(self, ctx, max_failures):
        self.ctx = ctx
        self.left = max_failures
        self.calls = 0
        self.failed_on = []

    def __call__(self, message):
        self.calls += 1
        if self.left > 0 and self.ctx.flag("dest-fails"):
            self.left -= 1
            self.failed_on.append(dict(message))
            raise IOError("flaky destination, call %d" % self.calls)


def placement_oracle(ctx, received, what, exempt_remote_order=False):
    """C02's statement, checked on the stream one accepting destination saw.
    ``exempt_remote_order``: a hand-off (serialize_task_id / preserve_context) reserves its
    position when the id is made, in causal order, but the other thread emits the sub-tree
    later; for such children only uniqueness and contiguity are demanded, not emission order."""
    seen = set()
    remote = set()
    for m in received:
        if m.get("action_type") == "eliot:remote_task" and m.get("action_status") == "started":
            lvl = m["task_level"]
            remote.add((m["task_uuid"], tuple(lvl[:-2]), lvl[-2]))
    first_order = {}  # (uuid, prefix) -> positions in order of first appearance
    item = {}  # (uuid, prefix, pos) -> "start" | "end" | "msg"
    for idx, m in enumerate(received):
        for k in ("task_uuid", "task_level", "timestamp"):
            ctx.check(k in m, "%s: message %d lacks %s: %r", what, idx, k, m)
        lvl = m["task_level"]
        ctx.check(type(m["task_uuid"]) is str and type(lvl) is list and len(lvl) >= 1 and all(type(x) is int and x >= 1 for x in lvl), "%s: bad identification in %r", what, m)
        ctx.check(type(m["timestamp"]) is float, "%s: timestamp %r is not a float", what, m["timestamp"])
        is_action = "action_type" in m
        ctx.check(is_action or "message_type" in m, "%s: neither action_type nor message_type in %r", what, m)
        if is_action:
            ctx.check(m.get("action_status") in ("started", "succeeded", "failed"), "%s: action message without valid status: %r", what, m)
        key = (m["task_uuid"], tuple(lvl))
        ctx.check(key not in seen, "%s: two messages share task_uuid/task_level %r", what, key)
        seen.add(key)
        u = m["task_uuid"]
        for i in range(len(lvl)):
            k2 = (u, tuple(lvl[:i]))
            order = first_order.setdefault(k2, [])
            if lvl[i] not in order:
                order.append(lvl[i])
        kind = "msg"
        if is_action:
            kind = "start" if m["action_status"] == "started" else "end"
        item[(u, tuple(lvl[:-1]), lvl[-1])] = kind
    for (u, prefix), order in first_order.items():
        n = len(order)
        ctx.check(sorted(order) == list(range(1, n + 1)), "%s: positions used inside action %s%r are %r, not 1..%d", what, u, list(prefix), sorted(order), n)
        timed = [p for p in order if not (exempt_remote_order and (u, prefix, p) in remote)]
        ctx.check(timed == sorted(timed), "%s: inside action %s%r items were first emitted in position order %r", what, u, list(prefix), order)
        first = item.get((u, prefix, 1))
        if first != "start":
            # only a context-less message may occupy position 1 without a start
            ctx.check(prefix == () and n == 1 and first == "msg", "%s: action %s%r does not begin with its start message (position 1 is %r)", what, u, list(prefix), first)
        ends = [p for p in order if item.get((u, prefix, p)) == "end"]
        ctx.check(len(ends) <= 1, "%s: action %s%r has %d end messages", what, u, list(prefix), len(ends))
        if ends:
            ctx.check(ends[0] == n, "%s: end message of action %s%r is at position %d but %d positions are used", what, u, list(prefix), ends[0], n)
        starts = [p for p in order if item.get((u, prefix, p)) == "start"]
        ctx.check(starts in ([], [1]), "%s: start messages at positions %r in action %s%r", what, starts, u, list(prefix))
    return first_order, item


def body_E1(ctx):
    sh = ctx.shard
    healthy = []
    flaky = FlakyDestination(ctx, sh.get("F", 2))
    if sh.get("flaky_first", 1):
        _output.Logger._destinations.add(flaky, healthy.append)
    else:
        _output.Logger._destinations.add(healthy.append, flaky)
    it = I.Interp(ctx, sh.get("N", 4), sh.get("D", 3))
    it.run()
    first_order, item = placement_oracle(ctx, healthy, "program %s, failures on %r" % (it.render(), [f.get("task_level") for f in flaky.failed_on]))
    # every action of the program started and ended exactly once in the stream
    n_start = sum(1 for v in item.values() if v == "start")
    n_end = sum(1 for v in item.values() if v == "end")
    ctx.check(n_start == it.n_actions and n_end == it.n_actions, "program %s ran %d actions; stream has %d starts and %d ends", it.render(), it.n_actions, n_start, n_end)
    reports = [m for m in healthy if m.get("message_type") == "eliot:destination_failure"]
    nested_end_hit = any(f.get("action_status") in ("succeeded", "failed") and len(f["task_level"]) >= 3 for f in flaky.failed_on if "action_status" in f)
    if nested_end_hit:
        ctx.reached("end-of-nested-action-failed")
    if flaky.failed_on or it.n_actions >= 2:
        ctx.nontrivial((json.dumps(sh, sort_keys=True), tuple(ctx.trace)))
    ctx.sample({"program": it.render(), "flaky_failed_on_levels": [f.get("task_level") for f in flaky.failed_on], "healthy_saw": len(healthy), "failure_reports": len(reports)})


def E1() -> bool:
    """
    post: _
    """
    return run(body_E1, "X", {})


# -- E2: concurrent threads (and preserve_context hand-offs) -------------------------------
def body_E2(ctx):
    """Same thread programs and scheduler as C05 E1; here the merged stream is checked for
    run-wide uniqueness and per-action contiguity/order."""
    from props import c05

    received, sched = c05.body_E1(ctx)
    placement_oracle(ctx, received, "threads, schedule %s" % sched.render(), exempt_remote_order=True)


def E2() -> bool:
    """
    post: _
    """
    return run(body_E2, "X", {})


def body_E3(ctx):
    """C05 E2's asyncio tasks (all gate orders): uniqueness / contiguity / order of the merged stream."""
    from props import c05

    received = c05.body_E2(ctx)
    placement_oracle(ctx, received, "asyncio tasks")


def E3() -> bool:
    """
    post: _
    """
    return run(body_E3, "X", {})


# -- E4: the caller's own fields cannot displace eliot's bookkeeping fields -------------------
_USER_VALUES = {"task_uuid": "user-uuid", "task_level": "user-level", "timestamp": "yesterday", "action_status": "user-status", "action_type": "user:type"}


def body_E4(ctx):
    """Application fields whose *names* coincide with the fields every message carries
    (task_uuid, task_level, timestamp, plus action_status/action_type on action messages):
    whatever the application passes, the emitted message carries eliot's own values."""
    from eliot import start_action, log_message, log_call, current_action, Message

    received = []
    _output.Logger._destinations.add(received.append)
    api = ctx.choose(7, "API the colliding fields go through")
    cand = ["task_uuid", "task_level", "timestamp", "action_status", "action_type"]
    if api in (0, 5):  # start_action(**fields) / log_call parameters: action_type is a parameter of its own
        cand = cand[:4]
    if api in (2, 3, 4):  # plain messages: only the three fields every message carries
        cand = cand[:3]
    keys = [k for k in cand if ctx.flag("the application uses a field called %s" % k)]
    if not keys:
        return
    user = {k: _USER_VALUES[k] for k in keys}
    with start_action(action_type="c02:outer"):
        if api == 0:
            with start_action(action_type="c02:a", **user):
                log_message("c02:in")
        elif api == 1:
            with start_action(action_type="c02:a") as a:
                a.add_success_fields(**user)
        elif api == 2:
            log_message("c02:m", **user)
        elif api == 3:
            current_action().log("c02:m", **user)
        elif api == 4:
            Message.new(message_type="c02:m", **user).bind(**user).write()
        elif api == 5:
            src = "def f(%s):\n    return 1\n" % ", ".join(keys)
            ns = {}
            exec(src, ns)
            log_call(ns["f"])(**user)
        else:
            a = start_action(action_type="c02:a")
            a.finish()
            b = start_action(action_type="c02:b")
            with b.context():
                b.add_success_fields(**user)
            b.finish()
        log_message("c02:after")
    placement_oracle(ctx, received, "application fields named %r via API %d" % (keys, api))
    ctx.check(len({m["task_uuid"] for m in received}) == 1, "one task was run, the stream names the tasks %r", sorted({str(m["task_uuid"]) for m in received}))
    for m in received:
        if "action_type" in m:
            ctx.check(m["action_type"] in ("c02:outer", "c02:a", "c02:b") or m["action_type"].endswith(".f"), "an action message carries the application's value as its action_type: %r", m)
    ctx.nontrivial((api, tuple(keys)))
    ctx.reached()
    ctx.sample({"api": api, "colliding_fields": keys, "messages": len(received)})


def E4() -> bool:
    """
    post: _
    """
    return run(body_E4, "X", {})



def _e2_shards(tier):
    from props import c05

    cfgs = [{"workers": 2, "P": 1, "preserve": 1}] if tier == "quick" else [{"workers": 2, "P": 1, "preserve": 1}, {"workers": 2, "P": 2, "preserve": 0}]
    out = []
    for base in cfgs:
        out += [dict(base, prefix=p) for p in enumerate_prefixes(body_E2, "X", {}, base, 4 if base["preserve"] else 3)]
    return out


def _e1_shards(tier):
    N, D, F = (4, 3, 2) if tier == "quick" else (5, 3, 2)
    profiles = [{}, {"open": 1}, {"open": 2}, {"open": 3}, {"open": 4}, {"open": 5}, {"msg": 4}, {"fin": 1}, {"exc": 2}, {"flaky_first": 0}, {"open": 6, "exc": 7, "ext": 1, "F": 0}, {"open": 6, "F": 0}, {"real_uuid": 1, "open": 5}, {"real_uuid": 1, "msg": 3}]
    out = []
    for p in profiles:
        s = dict(dict(N=N if not p else N - 1, D=D, F=F), **p)
        for pre in enumerate_prefixes(body_E1, "X", {}, s, 3 if (not p or tier != "quick") else 1):
            out.append(dict(s, prefix=pre))
    return out


_DEPTH = "action level: any list of <= 4 integers >= 1; counter k: any integer >= 0; field value: any integer"

OBLIGATIONS = [
    Ob("L1", L1, body_L1, "S", desc="_nextTaskLevel hands out level+[k+1], no aliasing, preserves the invariant", functions=["Action._nextTaskLevel", "TaskLevel.child", "TaskLevel.next_sibling"], bounds={"quick": _DEPTH}, timeout={"quick": 120, "thorough": 300}),
    Ob("L2", L2, body_L2, "S", desc="_start writes position 1 through Logger.write/Destinations.send", functions=["Action._start", "Logger.write", "Destinations.send"], bounds={"quick": _DEPTH}, timeout={"quick": 120, "thorough": 300}),
    Ob("L3", L3, body_L3, "S", desc="child() consumes k+1; child and parent counters independent", functions=["Action.child", "Action._nextTaskLevel"], bounds={"quick": _DEPTH}, timeout={"quick": 120, "thorough": 300}),
    Ob("L4", L4, body_L4, "S", desc="log() writes position k+1", functions=["Action.log", "Logger.write", "Destinations.send"], bounds={"quick": _DEPTH}, timeout={"quick": 120, "thorough": 300}),
    Ob("L5", L5, body_L5, "S", desc="finish() writes position k+1 once; repeated finish is silent", functions=["Action.finish", "ErrorExtraction.get_fields_for_exception", "safeunicode"], bounds={"quick": _DEPTH}, timeout={"quick": 120, "thorough": 300}),
    Ob(
        "E1",
        E1,
        body_E1,
        "X",
        desc="programs x failure masks of a second destination: what the healthy destination saw is unique, contiguous 1..n per action, start first, end last, emitted in position order",
        functions=["Action.__exit__", "Action.finish", "Action._nextTaskLevel", "start_action", "log_message", "Destinations.send (failure reports)", "Logger.write"],
        shards=_e1_shards,
        twin=[{"N": 4, "D": 3, "F": 2, "twin_label": "end-of-nested-action-failed"}],
        timeout={"quick": 100, "thorough": 900},
        bounds={"quick": "op sequences <= 4 ops (baseline profile; <= 3 ops for the other profiles), depth <= 3, <= 2 failing calls of the other destination at solver-chosen points (incl. on failure reports), 12 style profiles (incl. finish(exc) called inside the action's own context with a raising extractor - without destination faults, since a report about an end message written inside its own context necessarily follows it), failing destination registered before/after the healthy one", "thorough": "<= 5 ops (baseline profile; <= 4 ops for the others), <= 2 failing calls"},
    ),
    Ob(
        "E2",
        E2,
        body_E2,
        "X",
        desc="main + 2 worker threads (plain or via preserve_context) interleaved at logging-call boundaries: merged stream unique and contiguous per action",
        functions=["Action._nextTaskLevel", "start_action", "log_message", "preserve_context", "Action.serialize_task_id", "Action.continue_task"],
        shards=_e2_shards,
        twin=[{"workers": 2, "P": 1, "preserve": 1, "twin_label": "interleaved"}],
        timeout={"quick": 100, "thorough": 1500},
        bounds={"quick": "3 worker programs each for 2 threads, plain or preserve_context, <= 1 preemption at call granularity in eliot/_action.py", "thorough": "additionally plain threads with <= 2 preemptions"},
    ),
    Ob(
        "E3",
        E3,
        body_E3,
        "X",
        desc="asyncio tasks with nested actions spanning awaits, every gate order: merged stream unique, contiguous per action, emitted in position order",
        functions=["Action._nextTaskLevel", "start_action", "log_message", "Action.__enter__/__exit__"],
        shards={"quick": [{"tasks": 2, "awaits": 3}, {"tasks": 3, "awaits": 2}, {"tasks": 2, "awaits": 2, "shared": 1}], "thorough": [{"tasks": 3, "awaits": 3}, {"tasks": 3, "awaits": 2, "shared": 1}]},
        twin=[{"tasks": 2, "awaits": 3, "twin_label": "interleaved"}],
        timeout={"quick": 100, "thorough": 600},
        bounds={"quick": "2 tasks x 3 awaits, 3 tasks x 2 awaits, 2 tasks entering the shared parent's context(); all gate orders", "thorough": "3 tasks x 3 awaits"},
    ),
    Ob("E4", E4, body_E4, "X", desc="application fields named task_uuid / task_level / timestamp / action_status / action_type never displace eliot's own values", functions=["Action._start", "Action.finish", "Action.log", "Message._freeze", "log_call", "_start_action_with_fields"],
       timeout={"quick": 100, "thorough": 300}, bounds={"quick": "7 APIs (start_action fields, add_success_fields, log_message, Action.log, Message.new/bind/write, log_call parameter names, add_success_fields inside context()) x every non-empty subset of the colliding names applicable to that API"}),
    Ob("L7", L7, body_L7, "S", desc="TaskLevel order = tree pre-order", functions=["TaskLevel.__lt__", "__le__", "__gt__", "__ge__", "__eq__", "__hash__", "next_sibling", "child", "parent"], bounds={"quick": "levels of depth <= 4 (+2), any positions j<k, m>=1"}, timeout={"quick": 120, "thorough": 300}),
]
