"""C14 - test-time validation accepts exactly the messages matching their declared types."""

import json
import unittest
from typing import Union

from engine.core import run, enumerate_prefixes
from engine.ob import Ob
from engine import interp as I

import eliot
from eliot import _output, MessageType, ActionType, Field, ValidationError, start_action, log_message, write_traceback
from eliot._output import MemoryLogger
from eliot._traceback import TRACEBACK_MESSAGE
from eliot.testing import capture_logging, validate_logging, check_for_errors, UnflushedTracebacks, swap_logger

PROPERTY = "C14"
NONTRIVIAL_RULE = (
    "L1 leaves keyed by (serializer, which fields are present, value type classes, extra/reserved flags); E1 leaves are "
    "(program or message kind, deviation kind, position); E2 leaves are test outcomes; all but the fully conforming "
    "no-deviation leaf are non-trivial."
)
EXPLANATION = (
    "L1: messages assembled from symbolic parts (presence of each declared field, values over int|str|float|bool|None, an "
    "undeclared key (one that a different MessageType does declare), a reserved key, the type text) go through the real _MessageSerializer.validate of a MessageType, the "
    "three ActionType serializers and the traceback type; z3 proves accept <=> independent conformance predicate. "
    "E1: library-emitted typed messages always validate in a MemoryLogger and every single-point deviation is reported; "
    "unflushed tracebacks fail check_for_errors first. E2: capture_logging on real unittest.TestCase methods restores "
    "the default logger for every test outcome."
)
ASSUMPTIONS = ["field validators are deterministic functions of the value"]

Val = Union[int, str, float, bool, None]


def _nonneg(v):
    # a validator that only knows about numbers: it has no opinion on other values (the declared
    # classes are what rejects those)
    if isinstance(v, (int, float)) and v < 0:
        raise ValidationError(v, "must be >= 0")


F_I = Field.for_types("i", [int], "an int")
F_S = Field.for_types("s", [str, None], "text or null")
F_N = Field.for_types("n", [int, float], "non-negative number", extraValidator=_nonneg)
MT = MessageType("c14:msg", [F_I, F_S, F_N], "typed message")
AT = ActionType("c14:act", [F_I, F_S], [F_N], "typed action")
# the field name L1 uses as the undeclared extra IS declared - by a different type (what one type declares must not widen another)
MT_OTHER = MessageType("c14:other", [Field.for_types("undeclared", [int], "declared by another type only")], "another typed message")

SERIALIZERS = {
    "message": (MT._serializer, {"message_type": "c14:msg"}, ["i", "s", "n"], False),
    "start": (AT._serializers.start, {"action_type": "c14:act", "action_status": "started"}, ["i", "s"], False),
    "success": (AT._serializers.success, {"action_type": "c14:act", "action_status": "succeeded"}, ["n"], False),
    "failure": (AT._serializers.failure, {"action_type": "c14:act", "action_status": "failed"}, ["reason", "exception"], True),
}


def _type_ok(name, v):
    """Independent statement of what each declared field accepts."""
    if name == "i":
        return isinstance(v, int)
    if name == "s":
        return v is None or isinstance(v, str)
    if name == "n":
        return isinstance(v, (int, float)) and not (v < 0)
    if name in ("reason", "exception"):
        return isinstance(v, str)
    return True


GOOD = {"i": 3, "s": "ok", "n": 1.5, "reason": "r", "exception": "e"}


def body_L1(ctx, p1, p2, p3, v, has_type, type_text, extra, reserved, status_ok):
    """One declared field carries an arbitrary value (int|str|float|bool|None); the others are
    present-with-a-conforming-value or absent (symbolic presence)."""
    ctx.assume(len(type_text) <= 3)
    if isinstance(v, float):
        ctx.assume(v == v)  # NaN: CrossHair's float model and CPython disagree on comparisons
    which = ctx.shard.get("serializer", "message")
    vary = ctx.shard.get("vary", 0)
    ser, fixed, names, allow_extra = SERIALIZERS[which]
    m = {}
    conforming = True
    present = [p1, p2, p3][: len(names)]
    shape = []
    for k, (name, p) in enumerate(zip(names, present)):
        if p:
            if k == vary:
                m[name] = v
                ok = True if _type_ok(name, v) else False
                shape.append((name, "arbitrary", ok))
                if not ok:
                    conforming = False
            else:
                m[name] = GOOD[name]
                shape.append((name, "good", True))
        else:
            shape.append((name, "absent", False))
            conforming = False
    tkey = "message_type" if "message_type" in fixed else "action_type"
    if has_type:
        m[tkey] = fixed[tkey]
    else:
        m[tkey] = type_text
        if type_text != fixed[tkey]:
            conforming = False
    if "action_status" in fixed:
        m["action_status"] = fixed["action_status"] if status_ok else "bogus"
        if not status_ok:
            conforming = False
    if extra:
        m["undeclared"] = 1
        if not allow_extra:
            conforming = False
    if reserved:
        m.update(task_uuid="u", task_level=[1], timestamp=1.0)
    snapshot = dict(m)
    try:
        ser.validate(m)
        accepted = True
    except ValidationError:
        accepted = False
    except (TypeError, AttributeError):
        accepted = False  # an extra validator blew up on a wrongly typed value: still a rejection
    ctx.check(accepted == conforming, "%s serializer %s a message whose conformance is %r: %r", which, "accepted" if accepted else "rejected", conforming, m)
    ctx.check(m == snapshot, "validate() modified the message")
    ctx.nontrivial((which, vary, tuple(shape), True if has_type else False, True if extra else False, True if reserved else False))
    ctx.sample({"serializer": which, "fields": shape, "extra": True if extra else False, "conforming": conforming})
    ctx.reached()


def L1(p1: bool, p2: bool, p3: bool, v: Val, has_type: bool, type_text: str, extra: bool, reserved: bool, status_ok: bool) -> bool:
    """
    post: _
    """
    return run(body_L1, "S", dict(p1=p1, p2=p2, p3=p3, v=v, has_type=has_type, type_text=type_text, extra=extra, reserved=reserved, status_ok=status_ok))


# -- E1: library-emitted messages validate; single deviations are reported --------------------
class Unencodable(object):
    pass


def body_E1(ctx):
    sh = ctx.shard
    logger = MemoryLogger()
    _output._DEFAULT_LOGGER = logger
    pre = ctx.choose(3, "logger history before the scenario")
    if pre >= 1:
        # earlier, conforming use of the same logger: some messages, an explicit validate(), a reset()
        MT.log(i=1, s="x", n=2.5)
        with AT(i=1, s=None) as a0:
            a0.add_success_fields(n=0)
        logger.validate()
        if pre == 2:
            logger.validate()  # validating twice must be harmless
        logger.reset()
    kind = ["message", "action-ok", "action-failed", "action-failed-extractor", "traceback", "nested"][ctx.choose(6, "what is logged")]
    dev = ["none", "drop", "add", "wrong-type", "validator-rejected", "not-encodable", "non-str-key", "not-encodable-nested", "wrong-type-equal"][ctx.choose(9, "deviation")]

    class AppErr(Exception):
        pass

    eliot.register_exception_extractor(AppErr, lambda e: {"code": 7})
    fields = {"i": 1, "s": "x", "n": 2.5}
    sfields = {"i": 1, "s": None}
    nfields = {"n": 0}
    target = None  # which dict gets the deviation

    def deviate(d, droppable):
        if dev == "drop":
            d.pop(droppable)
        elif dev == "add":
            d["undeclared"] = 1
        elif dev == "wrong-type":
            d[droppable] = [1] if droppable != "s" else 5
        elif dev == "wrong-type-equal":
            # a value of the wrong type that compares (and hashes) equal to the conforming one this
            # very field has accepted before: 1.0 / True for the int 1, the int 0 for the float 0.0
            d[droppable] = {"i": 1.0, "n": False}.get(droppable, 5)
        elif dev == "validator-rejected":
            d["n"] = -1
        elif dev == "not-encodable":
            d[droppable] = Unencodable()
        return d

    applicable = True
    if dev == "not-encodable-nested":
        # an untyped message (no declared fields) whose list/dict value hides something JSON cannot encode
        if kind == "message":
            log_message("c14:untyped", items=[1, {"deep": Unencodable()}])
        elif kind == "action-ok":
            with start_action(action_type="c14:untyped", cfg={"k": [Unencodable()]}):
                pass
        elif kind == "nested":
            with AT(i=1, s=None) as a:
                log_message("c14:untyped", blob=b"\xff\xfe")  # bytes that are not UTF-8
                a.add_success_fields(n=0)
        else:
            applicable = False
    elif kind == "message":
        if dev == "non-str-key":
            applicable = False
        else:
            MT.log(**deviate(dict(fields), "i"))
    elif kind in ("action-ok", "nested"):
        if dev in ("validator-rejected",):
            with AT(**sfields) as a:
                a.add_success_fields(**deviate(dict(nfields), "n"))
        elif dev == "non-str-key":
            applicable = False
        else:
            with AT(**deviate(dict(sfields), "i")) as a:
                if kind == "nested":
                    MT.log(**fields)
                    with AT(**sfields) as b:
                        b.add_success_fields(**nfields)
                a.add_success_fields(**nfields)
    elif kind in ("action-failed", "action-failed-extractor"):
        if dev in ("validator-rejected", "non-str-key"):
            applicable = False
        else:
            try:
                with AT(**deviate(dict(sfields), "i")):
                    raise AppErr("x") if kind.endswith("extractor") else ValueError("x")
            except (AppErr, ValueError):
                pass
    else:  # traceback
        if dev != "none":
            applicable = False
        else:
            try:
                raise AppErr("tb")
            except AppErr:
                write_traceback()
    if not applicable:
        return
    had_tb = bool(logger.tracebackMessages)
    if kind == "traceback":
        try:
            check_for_errors(logger)
            ctx.fail("check_for_errors accepted a logger with an unflushed traceback")
        except UnflushedTracebacks:
            pass
        flushed = logger.flush_tracebacks(AppErr)
        ctx.check(len(flushed) == 1 and not logger.tracebackMessages, "flush_tracebacks returned %d messages", len(flushed))
    try:
        check_for_errors(logger)
        raised = None
    except (ValidationError, TypeError) as e:
        raised = e
    except UnflushedTracebacks as e:
        raised = e
    if dev == "none":
        ctx.check(raised is None, "messages produced by correct use of the declared types (%s) failed validation: %r", kind, raised)
    elif dev in ("drop", "wrong-type", "wrong-type-equal", "not-encodable") and kind != "message":
        # a failing start message is not delivered by Logger, but MemoryLogger records and reports it
        ctx.check(raised is not None, "deviation %s in %s was not reported (messages %r)", dev, kind, [m.get("action_status") or m.get("message_type") for m in logger.messages])
    else:
        ctx.check(raised is not None, "deviation %s in %s was not reported", dev, kind)
    if dev != "none" or kind != "message":
        ctx.nontrivial((kind, dev))
    if dev != "none" and kind == "nested":
        ctx.reached("deviation-nested")
    ctx.sample({"logged": kind, "deviation": dev, "reported": None if raised is None else type(raised).__name__})


def E1() -> bool:
    """
    post: _
    """
    return run(body_E1, "X", {})


# -- E2: capture_logging restores the default logger whatever the outcome ----------------------
def body_E2(ctx):
    outcome = ["pass", "fail", "error", "skip", "assertion-callback-error", "invalid-logging", "unflushed-traceback"][ctx.choose(7, "test outcome")]
    deco = [capture_logging, None][ctx.choose(2, "capture_logging / validate_logging")]
    test_swaps = ctx.flag("the test installs another default logger and leaves it there")
    before = _output._DEFAULT_LOGGER
    seen = {}

    def assertion(test, logger):
        seen["assertion"] = True
        if outcome == "assertion-callback-error":
            raise RuntimeError("callback")

    def method(self, logger):
        seen["logger"] = logger
        seen["default_inside"] = _output._DEFAULT_LOGGER
        log_message("c14:x", k=1)
        if outcome == "invalid-logging":
            MT.log(i="wrong")
        if outcome == "unflushed-traceback":
            try:
                raise ValueError("tb")
            except ValueError:
                write_traceback(logger)
        if test_swaps:
            swap_logger(MemoryLogger())  # e.g. a test of logger-swapping code that fails before swapping back
        if outcome == "fail":
            self.fail("no")
        if outcome == "error":
            raise RuntimeError("err")
        if outcome == "skip":
            raise unittest.SkipTest("skip")
        return 5

    if deco is capture_logging:
        wrapped = capture_logging(assertion)(method)
    else:
        wrapped = validate_logging(assertion)(method)

    class T(unittest.TestCase):
        test = wrapped

    result = unittest.TestResult()
    try:
        T("test").run(result)
    except KeyboardInterrupt:
        pass
    after = _output._DEFAULT_LOGGER
    if deco is capture_logging or not test_swaps:
        ctx.check(after is before, "after a %s test with %s (test swaps the logger itself: %r) the default logger is %r, it was %r", outcome, "capture_logging" if deco else "validate_logging", test_swaps, after, before)
    ctx.check(isinstance(seen.get("logger"), MemoryLogger), "the test did not receive a MemoryLogger")
    if deco is capture_logging:
        ctx.check(seen["default_inside"] is seen["logger"], "inside the test the default logger was not the captured one")
        if True:
            ctx.check(any(m.get("message_type") == "c14:x" for m in seen["logger"].messages), "default-logger messages were not captured")
    bad = len(result.errors) + len(result.failures)
    if outcome == "pass":
        ctx.check(bad == 0 and result.testsRun == 1, "passing test reported %r %r", result.errors, result.failures)
    elif outcome == "skip":
        ctx.check(len(result.skipped) == 1 and bad == 0 and "assertion" not in seen, "skipped test: %r %r, assertion ran: %r", result.errors, result.failures, "assertion" in seen)
    elif outcome in ("invalid-logging", "unflushed-traceback") and deco is capture_logging:
        ctx.check(bad >= 1, "%s did not fail the test", outcome)
    elif outcome in ("fail", "error", "assertion-callback-error"):
        ctx.check(bad >= 1, "%s test reported nothing", outcome)
    ctx.nontrivial((outcome, deco is capture_logging, test_swaps))
    ctx.sample({"outcome": outcome, "decorator": "capture_logging" if deco else "validate_logging", "errors": len(result.errors), "failures": len(result.failures), "skipped": len(result.skipped)})
    ctx.reached()


def E2() -> bool:
    """
    post: _
    """
    return run(body_E2, "X", {})


OBLIGATIONS = [
    Ob("L1", L1, body_L1, "S", desc="_MessageSerializer.validate accepts iff the independent conformance predicate holds", functions=["_MessageSerializer.validate", "Field.validate", "Field.forTypes", "Field.forValue"],
       shards={"quick": [{"serializer": k, "vary": i} for k, n in (("message", 3), ("start", 2), ("success", 1), ("failure", 2)) for i in range(n)]}, twin=[{"serializer": "message", "vary": 0}], timeout={"quick": 250, "thorough": 600}, path_timeout=60,
       bounds={"quick": "<= 3 declared fields each present/absent; one of them (every choice) carries an arbitrary value over int|str|float(non-NaN)|bool|None, the others a conforming constant; type field correct or any text of length <= 3; status correct/bogus; one undeclared key; the three reserved keys; 4 serializers (message, action start/success/failure)"}),
    Ob("E1", E1, body_E1, "X", desc="library-emitted typed messages validate; each single deviation is reported; unflushed tracebacks fail first", functions=["MemoryLogger.write", "MemoryLogger._validate_message", "MemoryLogger.validate", "MemoryLogger.flushTracebacks", "check_for_errors", "MessageType.log", "ActionType.__call__"],
       timeout={"quick": 100, "thorough": 300}, twin=[{"twin_label": "deviation-nested"}],
       bounds={"quick": "3 logger histories (fresh / validated and reset / validated twice and reset) x 6 logging scenarios x 9 deviation kinds (incl. a wrong-typed value equal to one the same field accepted earlier: 1.0 for 1) (incl. a non-encodable value nested inside a list/dict, non-UTF-8 bytes) (inapplicable ones skipped)"}),
    Ob("E2", E2, body_E2, "X", desc="capture_logging / validate_logging on real unittest.TestCase methods: default logger restored for 7 outcomes", functions=["capture_logging", "validate_logging", "swap_logger", "check_for_errors"],
       timeout={"quick": 100, "thorough": 300}, bounds={"quick": "7 test outcomes (pass, fail, error, skip, error in the assertion callback, invalid logging, unflushed traceback) x 2 decorators x {test leaves the default logger alone, test installs another one and does not restore it}"}),
]
