"""C15 - decorated generators keep their own action context and stay transparent."""

import json

from engine.core import run, enumerate_prefixes
from engine.ob import Ob

from eliot import _output, start_action, log_message, current_action
from eliot._output import Logger
from eliot._generators import eliot_friendly_generator_function

PROPERTY = "C15"
NONTRIVIAL_RULE = (
    "E1 leaves are driver schedules (which generator, which operation, from which driver context) given by the decision "
    "vector; non-trivial when at least two resumptions of a generator happened from different driver contexts or two "
    "generators were interleaved; L1 leaves keyed by the operation script."
)
EXPLANATION = (
    "1-2 decorated generators (4 body kinds: action spanning yields, nested decorated generator, yields inside nested "
    "actions, body catching thrown exceptions) are driven by solver-chosen sequences of next/send/throw/close from "
    "solver-chosen driver contexts. Oracle: inside the body current_action() is the generator's own stack (context at "
    "first resumption + actions it entered), the driver's current action never changes, every outcome (yielded value, "
    "StopIteration.value, raised exception object) equals that of an undecorated twin driven identically, and emitted "
    "messages hang under the right actions. L1 keeps sent/returned values symbolic."
)
ASSUMPTIONS = ["eliot.twisted.inline_callbacks needs Twisted (absent): only the wrapped eliot_friendly_generator_function is executed"]


class Boom(Exception):
    pass


class BaseBoom(BaseException):
    """Like KeyboardInterrupt / CancelledError: not an Exception subclass."""


class Info(object):
    """Per-generator bookkeeping shared between harness and body."""

    def __init__(self, ctx, name, logging):
        self.ctx = ctx
        self.name = name
        self.logging = logging
        self.base = "unset"
        self.stack = []
        self.received = []
        self.actions = []

    def top(self):
        return self.stack[-1] if self.stack else self.base

    def check(self, where):
        if not self.logging:
            return
        got = current_action()
        self.ctx.check(got is self.top(), "generator %s %s: current_action() is %r, its own context is %r", self.name, where, got, self.top())

    def action(self, atype):
        outer = self

        class _Cm(object):
            def __enter__(s):
                if not outer.logging:
                    return None
                s.parent = outer.top()
                s.a = start_action(action_type=atype, gen=outer.name)
                s.a.__enter__()
                outer.stack.append(s.a)
                outer.actions.append((s.a, s.parent))
                return s.a

            def __exit__(s, t, e, tb):
                if not outer.logging:
                    return False
                outer.stack.pop()
                s.a.__exit__(t, e, tb)
                return False

        return _Cm()

    def msg(self):
        if self.logging:
            log_message("g:m", gen=self.name)


def make_gen(kind, info, decorate, ret):
    def wrap(f):
        return eliot_friendly_generator_function(f) if decorate else f

    if kind == 0:  # action spanning yields

        def body():
            info.check("at start")
            with info.action("g:a"):
                info.check("inside g:a")
                info.received.append((yield "v1"))
                info.check("after yield 1")
                info.msg()
                info.received.append((yield "v2"))
                info.check("after yield 2")
            info.check("after the action")
            info.received.append((yield "v3"))
            info.check("after yield 3")
            return ret

    elif kind == 1:  # nested decorated generator

        def body():
            info.check("at start")
            with info.action("g:outer"):
                inner_info.base = info.top()  # the inner generator starts inside g:outer
                inner = wrap(_inner)()
                got = None
                try:
                    v = next(inner)
                    while True:
                        info.check("outer between inner steps")
                        got = yield v
                        info.received.append(got)
                        v = inner.send(got)
                except StopIteration as stop:
                    info.received.append(("inner-returned", stop.value))
            return ret

        inner_info = Info(info.ctx, info.name, info.logging)
        info.inner = inner_info

        def _inner():
            with inner_info.action("g:inner"):
                inner_info.check("inside inner action")
                x = yield "i1"
                inner_info.check("inner after yield")
                inner_info.msg()
                y = yield "i2"
            return ("inner", x, y)

    elif kind == 2:  # yields inside nested actions

        def body():
            with info.action("g:a1"):
                with info.action("g:a2"):
                    info.check("inside a2")
                    info.received.append((yield "n1"))
                    info.check("inside a2 after yield")
                info.check("inside a1 after a2")
                info.received.append((yield "n2"))
                info.msg()
            info.check("outside")
            return ret

    else:  # body catching a thrown exception

        def body():
            with info.action("g:c"):
                try:
                    info.received.append((yield "c1"))
                except (Boom, BaseBoom) as e:
                    info.received.append(("caught", e))
                    info.check("in the except block")
                    info.msg()
                info.received.append((yield "c2"))
                info.check("after c2")
            return ret

    return wrap(body)()


def outcome(fn):
    try:
        return ("value", fn())
    except StopIteration as s:
        return ("stop", s.value)
    except GeneratorExit as e:
        return ("genexit", None)
    except (Boom, BaseBoom) as e:
        return ("raised", e)


def same_outcome(a, b):
    if a[0] != b[0]:
        return False
    if a[0] == "raised":
        return a[1] is b[1]
    return a[1] == b[1]


def body_E1(ctx):
    sh = ctx.shard
    received = []
    Logger._destinations.add(received.append)
    ngen = sh.get("gens", 2)
    steps = sh.get("steps", 4)
    A = start_action(action_type="drv:A")
    B = start_action(action_type="drv:B")
    drivers = [None, A, B, "other-Context"][: sh.get("contexts", 3)]
    gens = []
    for i in range(ngen):
        kind = ctx.choose(4, "body kind g%d" % i)
        ret = ("ret", i)
        info = Info(ctx, "g%d" % i, True)
        twin_info = Info(ctx, "g%d'" % i, False)
        gens.append({"kind": kind, "info": info, "twin_info": twin_info, "gen": make_gen(kind, info, True, ret), "twin": make_gen(kind, twin_info, False, ret), "done": False, "started": False, "ctxs": set()})
    script = []
    for step in range(steps):
        live = [g for g in gens if not g["done"]]
        if not live:
            break
        k = ctx.choose(len(live) + 1, "which generator (0 = stop)")
        if k == 0:
            break
        g = live[k - 1]
        op = ["next", "send", "throw", "close", "send-exception-object", "throw-base-exception"][ctx.choose(6, "op")]
        d = drivers[ctx.choose(len(drivers), "driver context")]
        info = g["info"]
        payload = ("sent", step)
        exc = Boom("thrown %d" % step)
        if op in ("send", "send-exception-object") and not g["started"]:
            op = "next"  # a just-created generator only accepts None
        as_value = Boom("sent as a value %d" % step)
        base_exc = BaseBoom("thrown %d" % step)

        def do(gen):
            if op == "next":
                return next(gen)
            if op == "send":
                return gen.send(payload)
            if op == "send-exception-object":
                return gen.send(as_value)  # an exception instance is a value like any other
            if op == "throw":
                return gen.throw(exc)
            if op == "throw-base-exception":
                return gen.throw(base_exc)
            return gen.close()

        def step_fn():
            before = current_action()
            if not g["started"]:
                info.base = before
            r = outcome(lambda: do(g["gen"]))
            after = current_action()
            ctx.check(after is before, "resuming %s with %s changed the driver's current action from %r to %r", info.name, op, before, after)
            return r

        if d is None:
            got = step_fn()
        elif d == "other-Context":
            # the driver resumes the generator from another contextvars.Context (another thread,
            # another asyncio task, copy_context().run): tokens made in one Context are useless in another
            import contextvars

            got = contextvars.copy_context().run(step_fn)
        else:
            with d.context():
                got = step_fn()
        g["started"] = True
        g["ctxs"].add(id(d))
        exp = outcome(lambda: do(g["twin"]))
        script.append((info.name, op, "none" if d is None else (d if isinstance(d, str) else d._identification["action_type"]), got[0]))
        ctx.check(same_outcome(got, exp), "%s.%s: decorated generator gave %r, the undecorated one %r (script %r)", info.name, op, got, exp, script)
        ctx.check(info.received == g["twin_info"].received, "%s: values received inside the body %r differ from the undecorated twin's %r", info.name, info.received, g["twin_info"].received)
        if got[0] != "value":
            g["done"] = True
    for g in gens:
        g["gen"].close()
        g["twin"].close()
    # placement of what the generators logged
    for g in gens:
        info = g["info"]
        if hasattr(info, "inner"):
            info.actions.extend(info.inner.actions)
        for (a, parent) in info.actions:
            if parent is None:
                ctx.check(a._task_level.as_list() == [], "action of %s started without context is not a new task: %r", info.name, a._task_level.as_list())
            else:
                ctx.check(a.task_uuid == parent.task_uuid and a._task_level.as_list()[:-1] == parent._task_level.as_list(), "action of %s at %r is not a child of its context %r", info.name, a._task_level.as_list(), parent._task_level.as_list())
        own = [(a.task_uuid, a._task_level.as_list()) for a, _ in info.actions]
        for m in received:
            if m.get("message_type") == "g:m" and m.get("gen") == info.name:
                ctx.check((m["task_uuid"], m["task_level"][:-1]) in own, "message of %s landed at %r/%r, outside its own actions %r", info.name, m["task_uuid"], m["task_level"], own)
    interleaved = len([g for g in gens if g["started"]]) >= 2 or any(len(g["ctxs"]) >= 2 for g in gens)
    if interleaved:
        ctx.nontrivial((json.dumps(sh, sort_keys=True), tuple(ctx.trace)))
        ctx.reached("switching")
    ctx.sample({"bodies": [g["kind"] for g in gens], "script": script})


def E1() -> bool:
    """
    post: _
    """
    return run(body_E1, "X", {})


# -- L1: transparency for all values (Mode S) -------------------------------------------------
def body_L1(ctx, a, b, r):
    received = []
    Logger._destinations.add(received.append)
    script = ctx.shard.get("script", "return")
    seen = []

    @eliot_friendly_generator_function
    def echo():
        with start_action(action_type="g:echo"):
            x = yield a
            seen.append(x)
            try:
                y = yield x
                seen.append(y)
            except Boom as e:
                seen.append(e)
                yield "caught"
            except GeneratorExit:
                seen.append("closed")
                raise
        return r

    g = echo()
    v = next(g)
    ctx.check(v == a, "first yielded value %r is not the produced %r", v, a)
    v = g.send(b)
    ctx.check(v == b and seen == [b], "sent value arrived as %r / echoed as %r", seen, v)
    if script == "return":
        try:
            g.send(a)
            ctx.fail("generator did not finish")
        except StopIteration as stop:
            ctx.check(stop.value == r, "StopIteration.value is %r, the generator returned %r", stop.value, r)
        ctx.check(len(seen) == 2 and seen[1] == a, "second sent value arrived as %r", seen[1:])
    elif script == "throw":
        e = Boom("t")
        v = g.throw(e)
        ctx.check(v == "caught" and seen[1] is e, "thrown exception arrived as %r", seen[1:])
    else:
        g.close()
        ctx.check(seen[1:] == ["closed"], "close() did not raise GeneratorExit inside the body: %r", seen[1:])
    ctx.check(current_action() is None, "driver context changed")
    ctx.nontrivial(script)
    ctx.sample({"script": script, "values": "a, b, r symbolic ints"})
    ctx.reached()


def L1(a: int, b: int, r: int) -> bool:
    """
    post: _
    """
    return run(body_L1, "S", dict(a=a, b=b, r=r))


def _shards(tier):
    if tier == "quick":
        cfgs = [({"gens": 2, "steps": 2, "contexts": 3}, 3), ({"gens": 1, "steps": 3, "contexts": 3}, 3), ({"gens": 1, "steps": 2, "contexts": 4}, 2)]
    else:
        cfgs = [({"gens": 2, "steps": 2, "contexts": 4}, 3), ({"gens": 1, "steps": 4, "contexts": 2}, 4), ({"gens": 1, "steps": 3, "contexts": 4}, 3)]
    out = []
    for base, depth in cfgs:
        out += [dict(base, prefix=p) for p in enumerate_prefixes(body_E1, "X", {}, base, depth)]
    return out


OBLIGATIONS = [
    Ob(
        "L1",
        L1,
        body_L1,
        "S",
        desc="yielded/sent/thrown/closed/returned values cross the wrapper unchanged for all ints",
        functions=["eliot_friendly_generator_function"],
        shards={"quick": [{"script": s} for s in ("return", "throw", "close")]},
        twin=[{"script": "return"}],
        timeout={"quick": 120, "thorough": 300},
        bounds={"quick": "produced value a, sent value b, return value r: any ints; scripts next/send/send->return, next/send/throw, next/send/close"},
    ),
    Ob(
        "E1",
        E1,
        body_E1,
        "X",
        desc="driver schedules over 2 decorated generators x 4 body kinds x {next,send,send(exception object),throw,throw(BaseException),close} x 3 driver contexts: own context inside, driver context untouched, outcomes equal an undecorated twin's",
        functions=["eliot_friendly_generator_function", "Action.__enter__/__exit__", "start_action", "log_message", "current_action"],
        shards=_shards,
        twin=[{"gens": 2, "steps": 2, "contexts": 3, "twin_label": "switching"}],
        timeout={"quick": 100, "thorough": 1500},
        bounds={"quick": "2 generators (4 body kinds each) x <= 2 driver steps, 1 generator x <= 3 steps, and 1 generator x <= 2 steps with a 4th driver context (a different contextvars.Context); each step: any live generator x 6 operations x 3-4 driver contexts", "thorough": "2 generators x <= 2 steps and 1 generator x <= 3 steps with 4 driver contexts; 1 generator x <= 4 steps with 2"},
    ),
]
