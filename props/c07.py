"""C07 - logging never raises into, or alters, the application."""

import io
import json

from engine.core import run, enumerate_prefixes
from engine.ob import Ob

import eliot
from eliot import (
    _output,
    start_action,
    start_task,
    log_message,
    write_traceback,
    Message,
    MessageType,
    ActionType,
    Field,
    log_call,
    register_exception_extractor,
    current_action,
)
from eliot._output import Logger, FileDestination
from eliot._util import safeunicode, saferepr
from eliot._output import _safe_unicode_dictionary

PROPERTY = "C07"
NONTRIVIAL_RULE = (
    "E1 leaves are (entry-point kind(s), hostile value, fault mask) given by the decision vector; non-trivial when "
    "the value is hostile or at least one serializer/extractor/destination fault was injected; keyed by (shard, decision vector)."
)
EXPLANATION = (
    "Every public logging entry point is called with solver-chosen hostile field values while serializers, "
    "extractors and a destination raise on solver-chosen calls; a real FileDestination (orjson) is registered too. "
    "Oracle: every logging call returns, application exceptions propagate as the same object, return values are "
    "the same objects. L1 proves the total string conversions for symbolic inputs."
)
ASSUMPTIONS = ["faults are Exception subclasses (property's quantifier); DeprecationWarning is not configured to raise"]


class BadStr(object):
    def __str__(self):
        raise RuntimeError("no str")


class BadRepr(object):
    def __repr__(self):
        raise RuntimeError("no repr")


class BadBoth(object):
    def __str__(self):
        raise RuntimeError("no str")

    def __repr__(self):
        raise RuntimeError("no repr")


def _deep(n):
    x = []
    for _ in range(n):
        x = [x]
    return x


HOSTILE = [
    ("benign-int", lambda: 1),
    ("bad-str", BadStr),
    ("bad-repr", BadRepr),
    ("bad-both", BadBoth),
    ("non-str-keys", lambda: {1: 2, (1, 2): 3, None: 4}),
    ("2**64", lambda: 2 ** 64),
    ("nan", lambda: float("nan")),
    ("bytes", lambda: b"\xff\xfe"),
    ("lone-surrogate", lambda: "\ud800x"),
    ("object", object),
    ("deep-list", lambda: _deep(2000)),
    ("self-referential", lambda: (lambda d: (d.__setitem__("me", d), d)[1])({})),
]


class AppError(Exception):
    def __init__(self, payload):
        Exception.__init__(self, payload)
        self.payload = payload

    def __str__(self):
        return str(self.payload)  # raises when the payload's __str__ raises


class SerBoom(Exception):
    pass


def _odd_exception_class(kind):
    """Application exception classes whose metadata is unusual but legal."""
    if kind == 1:
        return type("Dynamic", (AppError,), {"__module__": None})  # e.g. classes built by type() in exec'd code
    if kind == 2:
        cls = type("Q", (AppError,), {})
        cls.__qualname__ = "Outer.<locals>.Q"
        cls.__module__ = ""
        return cls
    if kind == 3:
        # notes attached to the exception (PEP 678) need not be a list of str: __notes__ is an ordinary attribute
        return type("Noted", (AppError,), {"__notes__": ["context", 5, b"\xff", None]})
    if kind == 4:
        return type("NotedOddly", (AppError,), {"__notes__": 42})
    return AppError


class Unhashable(Exception):
    """Value-comparable exception: defining __eq__ removes __hash__."""

    def __eq__(self, other):
        return isinstance(other, Unhashable) and self.args == other.args


class StrRaises(Exception):
    def __str__(self):
        raise RuntimeError("no str for this exception")


FAULT_EXC = [lambda what: IOError("flaky " + what), lambda what: Unhashable("u " + what), lambda what: StrRaises("s " + what), lambda what: StopIteration("stop " + what)]


class Faults(object):
    """Solver-chosen fault injection shared by serializers, extractors and the flaky destination."""

    def __init__(self, ctx, budget):
        self.ctx = ctx
        self.left = budget
        self.injected = []

    def maybe(self, where):
        if self.left > 0 and self.ctx.flag("fault@" + where):
            self.left -= 1
            self.injected.append(where)
            return True
        return False


class _Colour(__import__("enum").Enum):
    RED = 1


def _message_type_value(k):
    return ["t:m", _Colour.RED, 5, None, b"t:bytes"][k]


def body_E1(ctx):
    sh = ctx.shard
    faults = Faults(ctx, sh.get("F", 2))
    mkexc = FAULT_EXC[int(sh.get("fault_exc", 0))]
    if sh.get("xself"):
        vname, vmake = HOSTILE[0]  # the value does not matter for this shard
    else:
        vname, vmake = HOSTILE[ctx.choose(len(HOSTILE), "value")]
    V = vmake()

    def ser(v):
        if faults.maybe("serializer"):
            raise mkexc("serializer")
        return v

    TM = MessageType("t:tm", [Field("x", ser, "")], "")
    TA = ActionType("t:ta", [Field("x", ser, "")], [Field("r", ser, "")], "")

    xkind = ctx.choose(2, "extractor result keys") if sh.get("xkeys", 1) else 0

    def extractor(e):
        if faults.maybe("extractor"):
            raise mkexc("extractor")
        if xkind:
            # keys that coincide with the message's own fields: must be tolerated, never raise
            return {"reason": "from extractor", "exception": "x.Y", "traceback": "tb", "message_type": "mt", "task_uuid": "tu", "payload": e.payload}
        return {"payload": e.payload}

    register_exception_extractor(AppError, extractor)
    if sh.get("xself"):
        # an extractor that is simply broken: it fails on every call, and what it raises is of the
        # very class it is registered for (e.g. registered for ValueError, it raises ValueError)
        def always_failing(e):
            raise AppError("extractor is broken")

        register_exception_extractor(AppError, always_failing)
    if sh.get("xchain"):
        # a second extractor, for the class of the exception the first one fails with (IOError):
        # it may fail as well, while the report about the first failure is being written
        def extractor_of_failures(e):
            if faults.maybe("extractor of the extractor's failure"):
                raise mkexc("second extractor")
            return {"errno": getattr(e, "errno", None)}

        register_exception_extractor(OSError, extractor_of_failures)

    class Flaky(object):
        calls = 0

        def __call__(self, m):
            Flaky.calls += 1
            if faults.maybe("destination"):
                raise mkexc("destination")

    sink = io.BytesIO()
    filedest = FileDestination(file=sink)
    if sh.get("flaky_first", 1):
        Logger._destinations.add(Flaky(), filedest)
    else:
        Logger._destinations.add(filedest, Flaky())

    called = []

    XSELF_SIG = "C07:extractor-raising-its-own-class-recursion"

    def _sig(e):
        # the one known defect: an extractor that always fails with an exception of the class it is
        # registered for makes the failure reporting recurse until RecursionError
        return XSELF_SIG if sh.get("xself") and isinstance(e, RecursionError) else None

    def guard(what, fn):
        """A logging call: must return normally."""
        try:
            return fn()
        except Exception as e:
            ctx.fail("%s raised %r for value %s with faults %r" % (what, e, vname, faults.injected), sig=_sig(e))

    # the message type itself is part of what is being logged: text, or (shard "mtype") an enum
    # member, an int, None or bytes
    MT = _message_type_value(int(sh.get("mtype", 0)))

    def k_log_message(inner):
        guard("log_message", lambda: log_message(MT, x=V))

    def k_action_log(inner):
        a = current_action()
        if a is None:
            a = guard("start_task", lambda: start_task(action_type="t:t"))
            guard("Action.log", lambda: a.log(MT, x=V))
            guard("finish", a.finish)
        else:
            guard("Action.log", lambda: a.log(MT, x=V))

    def k_message_old(inner):
        guard("Message.log", lambda: Message.log(message_type="t:old", x=V))
        guard("Message.new().write()", lambda: Message.new(message_type="t:old2", x=V).write())

    def k_typed_message(inner):
        guard("MessageType.log", lambda: TM.log(x=V))
        guard("MessageType.log without the declared field", lambda: TM.log(y=V))

    def k_with_ok(inner):
        a = guard("start_action", lambda: start_action(action_type="t:w", x=V))
        try:
            with a:
                if inner:
                    inner(None)
                guard("add_success_fields", lambda: a.add_success_fields(r=V))
        except Exception as e:
            ctx.fail("leaving a with-block normally raised %r (value %s, faults %r)" % (e, vname, faults.injected))

    ErrCls = _odd_exception_class(int(sh.get("errcls", 0)))

    def k_with_raise(inner):
        e = ErrCls(V)
        a = guard("start_action", lambda: start_action(action_type="t:wr", x=V))
        try:
            with a:
                if inner:
                    inner(None)
                raise e
        except AppError as got:
            ctx.check(got is e, "a different exception object propagated: %r", got)
        except Exception as other:
            ctx.fail("the application's exception was replaced by %r (value %s, faults %r)" % (other, vname, faults.injected), sig=_sig(other))
        else:
            ctx.fail("the application's exception was swallowed")

    def k_typed_action(inner):
        a = guard("ActionType()", lambda: TA(x=V))
        try:
            with a:
                if inner:
                    inner(None)
                guard("add_success_fields", lambda: a.add_success_fields(r=V))
        except Exception as e:
            ctx.fail("typed action block raised %r (value %s, faults %r)" % (e, vname, faults.injected))

    def k_explicit_finish(inner):
        a = guard("start_task", lambda: start_task(action_type="t:task", x=V))
        r = guard("Action.run", lambda: a.run(lambda: V))
        ctx.check(r is V, "Action.run returned %r", r)
        guard("finish(exception)", lambda: a.finish(ErrCls(V)))
        guard("finish again", a.finish)

    def k_traceback(inner):
        e = ErrCls(V)
        try:
            raise e
        except AppError:
            guard("write_traceback", write_traceback)

    @log_call(action_type="t:lc")
    def decorated(x):
        return x

    @log_call(action_type="t:lc2")
    def decorated_raises(x):
        raise AppError(x)

    def k_log_call(inner):
        try:
            r = decorated(V)
        except Exception as e:
            ctx.fail("log_call function raised %r (value %s, faults %r)" % (e, vname, faults.injected))
        ctx.check(r is V, "log_call function returned %r", r)
        try:
            decorated_raises(V)
        except AppError as got:
            ctx.check(got.payload is V, "exception payload changed")
        except Exception as e:
            ctx.fail("log_call function replaced the application's exception by %r" % (e,))
        else:
            ctx.fail("log_call swallowed the application's exception")

    kinds = [k_log_message, k_action_log, k_message_old, k_typed_message, k_with_ok, k_with_raise, k_typed_action, k_explicit_finish, k_traceback, k_log_call]
    if sh.get("xself"):
        kinds = [k_with_raise, k_traceback]
    elif sh.get("xchain") or sh.get("exc_kinds"):
        kinds = [k_with_raise, k_typed_action, k_explicit_finish, k_traceback, k_log_call]  # the kinds that consult extractors
    elif sh.get("only_kinds"):
        kinds = kinds[: int(sh["only_kinds"])] + [k_with_raise]
    k1 = kinds[ctx.choose(len(kinds), "first call")]
    if sh.get("xself"):
        # the known defect recurses to the interpreter's limit; a lower limit keeps that quick
        # (the native replay runs with the default limit)
        import sys as _sys

        _old_limit = _sys.getrecursionlimit()
        _sys.setrecursionlimit(min(_old_limit, len(__import__("inspect").stack()) + 150))
        try:
            k1(None)
        finally:
            _sys.setrecursionlimit(_old_limit)
        ctx.nontrivial(("xself", k1.__name__))
        return
    inner = None
    if sh.get("calls", 1) >= 2:
        j = ctx.choose(len(kinds) + 1, "second call")
        if j:
            k2 = kinds[j - 1]
            inner = lambda _: k2(None)
    before = current_action()
    if k1 in (k_with_ok, k_with_raise, k_typed_action):
        k1(inner)
    else:
        k1(None)
        if inner:
            inner(None)
    ctx.check(current_action() is before, "current action changed")
    if vname != "benign-int" or faults.injected:
        ctx.nontrivial((json.dumps(sh, sort_keys=True), tuple(ctx.trace)))
    if len(faults.injected) >= 2:
        ctx.reached("two-faults")
    ctx.sample({"value": vname, "first": k1.__name__, "second": inner and "yes", "faults": faults.injected, "bytes_logged": len(sink.getvalue())})


def E1() -> bool:
    """
    post: _
    """
    return run(body_E1, "X", {})


# -- L1: total string conversions (Mode S) -----------------------------------------------
class _RaisesWith(object):
    def __init__(self, n):
        self.n = n

    def __str__(self):
        raise ValueError(self.n)

    def __repr__(self):
        raise KeyError(self.n)


def body_L1(ctx, i, s):
    """Total conversions.  Measured limits: str()/repr() of symbolic ints, bytes, lists and
    dicts are realised by CrossHair (no verdict in 40 s each), so the for-all part is: any
    str through safeunicode, and objects whose __str__/__repr__ raise an exception carrying
    any int through all three helpers; everything else is covered by E1's hostile menu."""
    ctx.assume(len(s) <= 4)
    kind = ctx.shard.get("kind", "raising-dunders")
    if kind == "str":
        try:
            r = safeunicode(s)
        except Exception as e:
            ctx.fail("safeunicode raised %r" % (e,))
        ctx.check(isinstance(r, str) and r == s, "safeunicode(str) returned %r", r)
    else:
        o = _RaisesWith(i)
        for name, fn in (("safeunicode", safeunicode), ("saferepr", saferepr)):
            try:
                r = fn(o)
            except Exception as e:
                ctx.fail("%s raised %r" % (name, e))
            ctx.check(isinstance(r, str), "%s returned a %s", name, type(r).__name__)
        for arg in ({"a": o, "b": 1}, o):
            try:
                r = _safe_unicode_dictionary(arg)
            except Exception as e:
                ctx.fail("_safe_unicode_dictionary raised %r" % (e,))
            ctx.check(isinstance(r, str), "_safe_unicode_dictionary returned a %s", type(r).__name__)
    ctx.nontrivial(kind)
    ctx.sample({"input kind": kind})
    ctx.reached()


def L1(i: int, s: str) -> bool:
    """
    post: _
    """
    return run(body_L1, "S", dict(i=i, s=s))


def _e1_shards(tier):
    out = []
    if tier == "quick":
        for ff, fe, ec in ((1, 0, 0), (0, 0, 1), (1, 1, 2), (1, 2, 1), (0, 3, 0)):
            base = {"calls": 1, "F": 2, "flaky_first": ff, "fault_exc": fe, "errcls": ec}
            out += [dict(base, prefix=p) for p in enumerate_prefixes(body_E1, "X", {}, base, 1)]
        for mt in (1, 2, 3, 4):
            out.append({"calls": 1, "F": 2, "flaky_first": 1, "fault_exc": 0, "errcls": 0, "mtype": mt, "only_kinds": 2})
        base = {"calls": 1, "F": 3, "flaky_first": 1, "fault_exc": 0, "errcls": 0, "xchain": 1, "only_kinds": 0}
        out += [dict(base, prefix=p) for p in enumerate_prefixes(body_E1, "X", {}, base, 1)]
        for ec in (3, 4):
            out.append({"calls": 1, "F": 1, "flaky_first": 1, "fault_exc": 0, "errcls": ec, "exc_kinds": 1})
        out.append({"calls": 1, "F": 0, "flaky_first": 1, "fault_exc": 0, "errcls": 0, "xself": 1, "xkeys": 0, "only_value": 0})
        return out
    for ff, fe in ((1, 0), (0, 1)):
        base = {"calls": 2, "F": 2, "flaky_first": ff, "fault_exc": fe}
        out += [dict(base, prefix=p) for p in enumerate_prefixes(body_E1, "X", {}, base, 2)]
    for ff, fe, ec in ((1, 0, 0), (0, 0, 1), (1, 1, 2), (1, 2, 1), (0, 3, 0), (1, 0, 2)):
        base = {"calls": 1, "F": 3, "flaky_first": ff, "fault_exc": fe, "errcls": ec}
        out += [dict(base, prefix=p) for p in enumerate_prefixes(body_E1, "X", {}, base, 2)]
    for mt in (1, 2, 3, 4):
        out.append({"calls": 2, "F": 2, "flaky_first": mt % 2, "fault_exc": 0, "errcls": 0, "mtype": mt, "only_kinds": 2})
    for ec in (3, 4):
        out.append({"calls": 1, "F": 2, "flaky_first": 1, "fault_exc": 0, "errcls": ec, "exc_kinds": 1})
    out.append({"calls": 1, "F": 0, "flaky_first": 1, "fault_exc": 0, "errcls": 0, "xself": 1, "xkeys": 0})
    return out


OBLIGATIONS = [
    Ob(
        "E1",
        E1,
        body_E1,
        "X",
        desc="10 entry-point kinds x 12 hostile values x 5 application exception classes (ordinary / __module__ None / empty __module__ / __notes__ holding non-text items / __notes__ not a sequence) x 2 extractor result shapes (plain / keys colliding with message fields) x fault masks over serializers/extractors/destination (faults raise IOError, an unhashable exception, an exception whose str() raises, or StopIteration): no logging call raises, application exceptions and return values pass through",
        functions=["Logger.write", "Destinations.send", "_safe_unicode_dictionary", "safeunicode", "saferepr", "ErrorExtraction.get_fields_for_exception", "write_traceback", "Action.finish", "Action.__exit__", "log_call", "MessageType.log", "ActionType.__call__", "Message.log", "Message.write", "FileDestination.__call__"],
        shards=_e1_shards,
        twin=[{"calls": 1, "F": 2, "flaky_first": 1, "twin_label": "two-faults"}],
        timeout={"quick": 100, "thorough": 1500},
        path_timeout=60,
        bounds={"quick": "one entry-point kind (each makes 1-4 logging calls) x 12 values x <= 2 injected faults at solver-chosen fault points, flaky destination before/after the real FileDestination; a chain of two extractors that may both fail (<= 3 faults); an extractor that always fails with an exception of the class it is registered for (known finding); log_message / Action.log with a message type that is an enum member, an int, None or bytes (12 values, <= 2 faults)", "thorough": "two kinds (second nested inside the first's action where it has one) x 12 values x <= 2 faults for two fault-exception/ordering configurations; one kind x <= 3 faults for all five"},
    ),
    Ob("L1", L1, body_L1, "S", desc="safeunicode/saferepr/_safe_unicode_dictionary return str and never raise", functions=["safeunicode", "saferepr", "_safe_unicode_dictionary"], shards={"quick": [{"kind": "str"}, {"kind": "raising-dunders"}]}, twin=[{"kind": "str"}], timeout={"quick": 100, "thorough": 300}, bounds={"quick": "safeunicode on any str of length <= 4; all three helpers on objects whose __str__/__repr__ raise exceptions carrying any int"}),
]
