"""C11 - a crash loses no acknowledged message and leaves a parseable log."""

import io
import json

from engine.core import run, enumerate_prefixes
from engine.ob import Ob
from engine import interp as I

from eliot import _output
from eliot._output import FileDestination, Logger
from eliot.parse import Parser
from eliot._action import WrittenAction

PROPERTY = "C11"
NONTRIVIAL_RULE = (
    "A leaf is (program, crash instant in the file-event sequence, cut class of the write in flight); non-trivial when the "
    "crash falls strictly inside the run (some but not all events happened); keyed by (shard, decision vector)."
)
EXPLANATION = (
    "The crash point is a solver variable over the sequence of file-level events (write/flush) and acknowledgement "
    "points (logging call returned) that the real FileDestination produces for a solver-chosen program; the durable "
    "content is everything flushed before the crash plus a prefix of the write in flight (cut classes 0 / strictly "
    "inside / whole, with the uniformity of 'strictly inside' checked per write: the only newline is the last byte). "
    "Oracle: acknowledged messages are complete lines in order, at most one trailing fragment, the parser accepts the "
    "complete lines, started actions appear (unfinished ones as started), no task is complete unless all its messages are there."
)
ASSUMPTIONS = [
    "bytes handed to write() and followed by a returned flush() survive process death (SIGKILL with OS page cache; not power loss); unflushed bytes survive as an arbitrary prefix",
    "a reader splits on newlines and ignores a trailing fragment without newline",
    "real signal delivery, os.fsync and torn sectors are outside the model",
]


class CrashFile(object):
    sched = None  # E2: a thread switch may follow each (atomic) write()

    def __init__(self):
        self.events = []

    def write(self, data):
        if isinstance(data, str):
            raise TypeError("binary")
        if isinstance(data, (bytearray, memoryview)):
            data = bytes(data)  # real binary files take any bytes-like object and copy it at once
        if data:
            self.events.append(("write", data))
            if self.sched is not None:
                self.sched.yield_point("after file.write")

    def writelines(self, lines):
        # io.IOBase.writelines: one write() call per item, nothing atomic about it
        for line in lines:
            self.write(line)

    def flush(self):
        self.events.append(("flush",))


class _Raw(io.RawIOBase):
    """The OS-level file under a real io.BufferedWriter: what reaches it survives a crash."""

    def __init__(self, events):
        io.RawIOBase.__init__(self)
        self.events = events

    def writable(self):
        return True

    def write(self, data):
        data = bytes(data)
        if data:
            self.events.append(("write", data))
            self.events.append(("flush",))
        return len(data)


class _TextThrough(io.TextIOWrapper):
    """A real text stream opened with write_through=True over a real BufferedWriter: text written
    to it is handed to the binary buffer at once, but reaches the file only when that buffer is
    flushed (or fills up)."""

    def __init__(self, events):
        self.events = events
        io.TextIOWrapper.__init__(self, io.BufferedWriter(_Raw(events), buffer_size=1 << 16), encoding="utf-8", write_through=True)

    def write(self, text):
        n = io.TextIOWrapper.write(self, text)
        if text:
            self.events.append(("call",))
        return n


class AckInterp(I.Interp):
    check_context = False
    file = None

    def on_logged(self, ref):
        self.file.events.append(("ack",))

    def on_exit(self, ref, action):
        self.file.events.append(("ack",))


def body_E1(ctx):
    sh = ctx.shard
    f = CrashFile()
    if sh.get("stream") == "text-write-through":
        f = _TextThrough(f.events)
    Logger._destinations.add(FileDestination(file=f))
    it = AckInterp(ctx, sh.get("N", 4), sh.get("D", 3))
    it.file = f
    foreign = None
    if sh.get("under_remote"):
        # a worker process: everything it logs happens inside a task continued from another
        # process, whose earlier messages (the root's start among them) are in that process's log
        from eliot import Action

        foreign = "foreign-task"
        it.check_context = False
        with Action.continue_task(task_id="%s@/7/2" % foreign):
            it.run()
    else:
        it.run()
    f.events.append(("ack",))
    events = f.events
    writes = [e[1] for e in events if e[0] == "write"]
    for w in writes:
        ctx.check(w.find(b"\n") == len(w) - 1, "a write is not exactly one newline-terminated line: %r", w[:80])
    full_lines = [w[:-1] for w in writes]
    c = ctx.choose(len(events) + 1, "crash instant")
    happened = events[:c]
    durable = b""
    acked = 0  # number of messages whose logging call had returned
    n_written = 0
    n_calls = 0
    pending = None
    for e in happened:
        if e[0] == "call":
            n_calls += 1  # a line was handed to a buffering stream object (text variant)
        elif e[0] == "write":
            if pending is not None:
                durable += pending  # a later write implies the earlier bytes reached the file object in order
            pending = e[1]
            n_written += 1
        elif e[0] == "flush":
            if pending is not None:
                durable += pending
                pending = None
        else:
            acked = max(n_written, n_calls)
    cut = "n/a"
    if pending is not None:
        k = ctx.choose(3, "cut of the write in flight")
        cut = ["nothing", "inside", "whole"][k]
        if k == 1:
            durable += pending[: max(1, len(pending) // 2)]
        elif k == 2:
            durable += pending
    pieces = durable.split(b"\n")
    complete, fragment = pieces[:-1], pieces[-1]
    ctx.check(len(complete) >= acked, "crash after event %d: %d logging calls had returned but only %d complete lines are in the file (program %s)", c, acked, len(complete), it.render())
    ctx.check(complete == full_lines[: len(complete)], "the complete lines are not a prefix, in order, of what the program logged")
    ctx.check(b"\n" not in fragment, "more than one trailing fragment")
    msgs = []
    for ln in complete:
        try:
            msgs.append(json.loads(ln))
        except Exception as e:
            ctx.fail("a complete line is not JSON: %r" % (ln[:80],))
    try:
        tasks = list(Parser.parse_stream(msgs))
    except Exception as e:
        ctx.fail("parsing the surviving lines raised %r (program %s, crash at %d)" % (e, it.render(), c))
    all_msgs = [json.loads(ln) for ln in full_lines]
    per_task_total = {}
    for m in all_msgs:
        per_task_total[m["task_uuid"]] = per_task_total.get(m["task_uuid"], 0) + 1
    per_task_seen = {}
    for m in msgs:
        per_task_seen[m["task_uuid"]] = per_task_seen.get(m["task_uuid"], 0) + 1
    by_uuid = {}
    for t in tasks:
        root = t.root()
        by_uuid[root.task_uuid] = t
        whole = per_task_seen[root.task_uuid] == per_task_total[root.task_uuid] and root.task_uuid != foreign
        ctx.check(t.is_complete() == whole, "task %s has %d of %d messages in the file but is_complete() is %r (program %s, crash at %d)", root.task_uuid, per_task_seen[root.task_uuid], per_task_total[root.task_uuid], t.is_complete(), it.render(), c)
    ctx.check(set(by_uuid) == set(per_task_seen), "tasks %r parsed, messages of tasks %r survived", sorted(by_uuid), sorted(per_task_seen))
    # every started action appears, unfinished ones as started without end
    started = {}
    ended = set()
    for m in msgs:
        if "action_type" in m:
            key = (m["task_uuid"], tuple(m["task_level"][:-1]))
            if m["action_status"] == "started":
                started[key] = m
            else:
                ended.add(key)

    def find(t, level):
        node = t.root()
        for depth in range(len(level)):
            kids = {tuple(k.task_level.as_list()): k for k in node.children}
            node = kids.get(tuple(level[: depth + 1]))
            if node is None:
                return None
        return node

    for (u, lvl), m in started.items():
        node = find(by_uuid[u], lvl)
        ctx.check(isinstance(node, WrittenAction) and node.start_message is not None, "started action %s%r does not appear in the parsed tree", u, list(lvl))
        if (u, lvl) not in ended:
            ctx.check(node.end_message is None and node.status == "started", "unfinished action %s%r is shown with status %r", u, list(lvl), node.status)
    if 0 < c < len(events):
        ctx.nontrivial((json.dumps(sh, sort_keys=True), tuple(ctx.trace)))
        if cut == "inside" and it.n_actions >= 2:
            ctx.reached("mid-write-nested")
    ctx.sample({"program": it.render(), "events": "".join(e[0][0] for e in events), "crash_at": c, "cut": cut, "complete_lines": len(complete), "acknowledged": acked})


def E1() -> bool:
    """
    post: _
    """
    return run(body_E1, "X", {})


# -- E2: acknowledged => flushed, with two logging threads --------------------------------
def body_E2(ctx):
    from engine.sched import Sched, Deadlock

    sh = ctx.shard
    f = CrashFile()
    dest = FileDestination(file=f)
    sched = Sched(ctx, watch={_output.__file__: {"__call__"}}, preemptions=sh.get("P", 3))
    f.sched = sched
    nmsg = sh.get("msgs", 1)

    def mk(t):
        def work():
            for i in range(nmsg):
                m = {"task_uuid": "u%d" % t, "task_level": [i + 1], "timestamp": 1.0, "message_type": "t:m", "who": t}
                dest(m)
                f.events.append(("ack", t, i))

        return work

    for t in range(sh.get("threads", 2)):
        sched.spawn(mk(t), "T%d" % t)
    try:
        sched.run()
    except Deadlock as e:
        ctx.fail(str(e))
    for w in sched.workers:
        ctx.check(w.exc is None, "worker died with %r", w.exc)
    # a crash right after any ack: everything written before the last flush is durable
    ev = f.events
    for k, e in enumerate(ev):
        if e[0] != "ack":
            continue
        t, i = e[1], e[2]
        flushed = b""
        pending = b""
        for x in ev[:k]:
            if x[0] == "write":
                pending += x[1]
            elif x[0] == "flush":
                flushed += pending
                pending = b""
        lines = flushed.split(b"\n")[:-1]
        mine = [json.loads(l) for l in lines if json.loads(l)["task_uuid"] == "u%d" % t]
        ctx.check(len(mine) >= i + 1, "the call logging message %d of thread %d returned, but a crash at that instant leaves only %d of its messages in the file (unflushed: %r); events %s; schedule %s", i, t, len(mine), pending[:60], "".join(x[0][0] for x in ev[:k]), sched.render())
    if sched.switches >= 2:
        ctx.nontrivial(tuple(ctx.trace))
        ctx.reached("interleaved")
    ctx.sample({"events": "".join(x[0][0] for x in ev), "schedule": sched.render(8)})


def E2() -> bool:
    """
    post: _
    """
    return run(body_E2, "X", {})


# -- E3: the process dies with very many tasks unfinished ------------------------------------------
def body_E3(ctx):
    """W top-level actions are started (one message each) and none is finished when the process
    is killed after the k-th logging call: every action whose start line is in the file appears in
    the parse result, as started and not ended, with the messages logged so far."""
    from eliot import start_action

    W = [5, 1000, 1001, 1500][ctx.choose(4, "unfinished tasks at the crash")]
    f = CrashFile()
    Logger._destinations.add(FileDestination(file=f))
    open_actions = []
    for i in range(W):
        a = start_action(action_type="job", n=i)
        with a.context():
            a.log("job:progress", n=i)
        open_actions.append(a)
    writes = [e[1] for e in f.events if e[0] == "write"]
    cut = [len(writes), len(writes) - 1, len(writes) // 2][ctx.choose(3, "lines in the file at the crash")]
    lines = writes[:cut]
    msgs = [json.loads(w) for w in lines]
    try:
        tasks = list(Parser.parse_stream(msgs))
    except Exception as e:
        ctx.fail("parsing the log of a process killed with %d open tasks raised %r" % (W, e))
    started = {m["task_uuid"] for m in msgs if m.get("action_status") == "started"}
    seen = {}
    for t in tasks:
        seen[t.root().task_uuid] = seen.get(t.root().task_uuid, 0) + 1
    missing = started - set(seen)
    ctx.check(not missing, "killed with %d open tasks: %d actions whose start line is in the file do not appear in the parse result (%d tasks returned)", W, len(missing), len(tasks))
    ctx.check(all(v == 1 for v in seen.values()), "a task was reported more than once")
    for t in tasks:
        ctx.check(not t.is_complete(), "an unfinished task is reported complete")
        root = t.root()
        ctx.check(isinstance(root, WrittenAction) and root.end_message is None and root.start_message is not None, "unfinished action shown as %r", root)
        n_in_file = sum(1 for m in msgs if m["task_uuid"] == root.task_uuid)
        ctx.check(1 + len(root.children) == n_in_file, "task %s: %d of its lines are in the file, the tree shows %d", root.task_uuid, n_in_file, 1 + len(root.children))
    ctx.nontrivial((W, cut))
    if W > 1000:
        ctx.reached("wide")
    ctx.sample({"open_tasks": W, "lines_in_file": cut, "tasks_parsed": len(tasks)})


def E3() -> bool:
    """
    post: _
    """
    return run(body_E3, "X", {})


def _shards(tier):
    N, D = (4, 3) if tier == "quick" else (5, 3)
    profiles = [{}, {"open": 1}, {"open": 3}, {"msg": 4}, {"exc": 2}, {"fin": 1}, {"empty_type": 1}, {"under_remote": 1, "open": 5}, {"under_remote": 1}, {"stream": "text-write-through"}]
    out = []
    for p in profiles:
        base = dict(p, N=N if not p else max(2, N - 1), D=D)
        out += [dict(base, prefix=q) for q in enumerate_prefixes(body_E1, "X", {}, base, 2 if tier == "quick" else 3)]
    return out


OBLIGATIONS_TAIL = [
    Ob("E3", E3, body_E3, "X", desc="a process killed with 5 / 1000 / 1001 / 1500 unfinished top-level actions: each appears, started and not ended, with its messages", functions=["FileDestination.__call__", "Parser.parse_stream", "Parser.add", "Parser.incomplete_tasks"],
       twin=[{"twin_label": "wide"}], timeout={"quick": 100, "thorough": 300}, bounds={"quick": "4 sizes x 3 crash points (after the last line, before it, half way)"}),
    Ob(
        "E2",
        E2,
        body_E2,
        "X",
        desc="two threads logging through one FileDestination: at the instant each logging call returns, its line has been written and flushed (crash right after any acknowledgement)",
        functions=["FileDestination.__call__"],
        shards={"quick": [{"threads": 2, "msgs": 1, "P": 3}], "thorough": [{"threads": 2, "msgs": 2, "P": 3}, {"threads": 3, "msgs": 1, "P": 2}]},
        twin=[{"threads": 2, "msgs": 1, "P": 3, "twin_label": "interleaved"}],
        timeout={"quick": 100, "thorough": 900},
        bounds={"quick": "2 threads x 1 message, <= 3 preemptions at line granularity in FileDestination.__call__", "thorough": "2 threads x 2 messages; 3 threads x 1 message with <= 2 preemptions"},
    ),
]

OBLIGATIONS = [
    Ob(
        "E1",
        E1,
        body_E1,
        "X",
        desc="every crash instant in the write/flush/ack event sequence of every program, three cut classes for the write in flight",
        functions=["FileDestination.__call__", "Logger.write", "Destinations.send", "Parser.parse_stream", "Task.add", "Task.is_complete"],
        shards=_shards,
        twin=[{"N": 3, "D": 3, "twin_label": "mid-write-nested"}],
        timeout={"quick": 100, "thorough": 1200},
        bounds={"quick": "programs <= 4 ops (baseline) / <= 3 ops (9 other style profiles, incl. a real write_through text stream over a real BufferedWriter, the default empty action type and a worker whose whole program runs inside a task continued from another process, with start_action or start_task), depth <= 3; every crash instant; cut classes {nothing, strictly inside, whole}", "thorough": "programs <= 5 / <= 4 ops"},
    ),
]
OBLIGATIONS += OBLIGATIONS_TAIL
