"""C10 - the JSON log file holds one valid, faithful line per message."""

import io
import json
import math
from datetime import date, time as dtime
from pathlib import Path, PurePosixPath

from engine.core import run, enumerate_prefixes, clen
from engine.ob import Ob

import eliot
import eliot.json as ejson
from eliot import _output
from eliot._output import FileDestination, Logger
from eliot.json import json_default

PROPERTY = "C10"
NONTRIVIAL_RULE = (
    "L1 leaves keyed by (file mode, payload length); L2 by rich-type class; E1 leaves are corner-value classes x "
    "file mode x nesting chosen by the decision vector - all counted non-trivial except the empty message."
)
EXPLANATION = (
    "Split along the FFI boundary: L1 proves the file protocol (exactly one write of payload+newline then one flush, "
    "same message object and json_default handed to the codec, text file gets the decoded payload) for every codec "
    "output (symbolic bytes) with the codec stubbed; L2 runs json_default on symbolic rich values; E1 validates the "
    "real orjson/json.loads pair on solver-selected corner classes (witnesses, not a for-all claim)."
)
ASSUMPTIONS = [
    "orjson returns valid UTF-8 without raw newlines (its documented contract); in L1 the payload is additionally ASCII so that decode stays symbolic",
    "orjson/json.loads are a faithful codec pair on JSON-native values - validated on corner classes by E1, not proved",
]


class RecBinary(object):
    def __init__(self):
        self.events = []

    def write(self, data):
        if isinstance(data, str):
            raise TypeError("a bytes-like object is required, not 'str'")
        if isinstance(data, (bytearray, memoryview)):
            data = bytes(data)  # real binary files take any bytes-like object and copy it at once
        self.events.append(("write", data))

    def writelines(self, lines):
        # io.IOBase.writelines: one write() call per item, nothing atomic about it
        for line in lines:
            self.write(line)

    def flush(self):
        self.events.append(("flush",))


class RecText(object):
    def __init__(self):
        self.events = []

    def write(self, data):
        if not isinstance(data, str):
            raise TypeError("write() argument must be str, not bytes")
        self.events.append(("write", data))

    def writelines(self, lines):
        # io.IOBase.writelines: one write() call per item, nothing atomic about it
        for line in lines:
            self.write(line)

    def flush(self):
        self.events.append(("flush",))


def body_L1(ctx, payload):
    ctx.assume(len(payload) <= 6)
    for c in payload:
        ctx.assume(c < 128 and c != 10)
    text = ctx.shard.get("text", 0)
    custom = ctx.shard.get("custom_default", 0)
    seen = []

    def stub_dumps(o, default=None):
        seen.append((o, default))
        return payload

    saved = (_output._dumps_bytes, ejson._dumps_bytes)
    _output._dumps_bytes = stub_dumps
    ejson._dumps_bytes = stub_dumps
    try:
        f = RecText() if text else RecBinary()
        mode_attr = ctx.shard.get("mode_attr")
        if mode_attr is not None:
            # e.g. codecs.StreamWriter over a binary file: accepts only str, reports mode "wb"
            f.mode = mode_attr

        def my_default(o):
            return None

        dest = FileDestination(file=f, json_default=my_default) if custom else FileDestination(file=f)
        probe = list(f.events)
        ctx.check(all(ev[0] != "write" or len(ev[1]) == 0 for ev in probe), "construction wrote data: %r", probe)
        del f.events[:]
        message = {"task_uuid": "u", "task_level": [1], "timestamp": 1.0, "message_type": "m", "k": [1, 2]}
        snapshot = json.dumps(message, sort_keys=True)
        dest(message)
        ev = f.events
        ctx.check(len(ev) == 2 and ev[0][0] == "write" and ev[1] == ("flush",), "one call produced the file events %r, expected one write then one flush", [e[0] for e in ev])
        data = ev[0][1]
        if text:
            ctx.check(isinstance(data, str) and data == payload.decode("utf-8") + "\n", "text file received %r for codec output %r", data, payload)
        else:
            ctx.check(isinstance(data, bytes) and data == payload + b"\n", "binary file received %r for codec output %r", data, payload)
        ctx.check(len(seen) == 1 and seen[0][0] is message, "the codec was called %d times / with another object", len(seen))
        ctx.check(seen[0][1] is (my_default if custom else json_default), "json_default handed to the codec is %r", seen[0][1])
        ctx.check(json.dumps(message, sort_keys=True) == snapshot, "the message was modified")
        # the same dict object offered again after the caller changed it: a new line, from a new codec call
        message["k"].append(3)
        message["extra"] = 1
        del f.events[:]
        dest(message)
        ctx.check(len(seen) == 2 and seen[1][0] is message, "second offer of the (changed) dict: codec called %d times in total", len(seen))
        ctx.check([e[0] for e in f.events] == ["write", "flush"], "second offer produced the file events %r", [e[0] for e in f.events])
    finally:
        _output._dumps_bytes, ejson._dumps_bytes = saved
    ctx.nontrivial((text, custom, clen(payload)))
    ctx.sample({"mode": "text" if text else "binary", "payload": "symbolic ASCII bytes, len %d" % clen(payload)})
    ctx.reached()


def L1(payload: bytes) -> bool:
    """
    post: _
    """
    return run(body_L1, "S", dict(payload=payload))


# (L2 of the design - json_default on symbolic sets / complex numbers / dates - is dropped:
# set construction hashes, complex() and date() are C constructors, all of which realise
# their symbolic arguments; measured: 6 474 paths in 150 s without exhausting.  The rich
# types are covered as witnesses in E1.)


# -- E1: codec contract on corner classes (real orjson + json.loads) -------------------------
def _nest(v, depth, as_dict):
    for i in range(depth):
        v = {"k%d" % i: v} if as_dict else [v]
    return v


class _RecBytes(io.BytesIO):
    """BytesIO that also records the write()/flush() calls made on it."""

    def __init__(self):
        io.BytesIO.__init__(self)
        self.calls = []

    def write(self, data):
        self.calls.append(("write", len(data)))
        return io.BytesIO.write(self, data)

    def writelines(self, lines):
        for ln in lines:
            self.write(ln)

    def flush(self):
        self.calls.append(("flush",))
        return io.BytesIO.flush(self)


class _RecWrapper(io.TextIOWrapper):
    """A real TextIOWrapper (UTF-16, no newline translation) recording write()/flush() calls."""

    def __init__(self, raw):
        io.TextIOWrapper.__init__(self, raw, encoding="utf-16-le", newline="")
        self.calls = []

    def write(self, data):
        n = io.TextIOWrapper.write(self, data)
        self.calls.append(("write", len(data)))
        return n

    def flush(self):
        self.calls.append(("flush",))
        return io.TextIOWrapper.flush(self)


class _RecText(io.StringIO):
    def __init__(self):
        io.StringIO.__init__(self)
        self.calls = []

    def write(self, data):
        self.calls.append(("write", len(data)))
        return io.StringIO.write(self, data)

    def writelines(self, lines):
        for ln in lines:
            self.write(ln)

    def flush(self):
        self.calls.append(("flush",))
        return io.StringIO.flush(self)


CORNERS = [
    ("int-min64", lambda: -(2 ** 63)),
    ("int-max64", lambda: 2 ** 63 - 1),
    ("uint-max64", lambda: 2 ** 64 - 1),
    ("zero", lambda: 0),
    ("neg-zero-float", lambda: -0.0),
    ("subnormal", lambda: 5e-324),
    ("float-max", lambda: 1.7976931348623157e308),
    ("float-frac", lambda: 0.1 + 0.2),
    ("nan", lambda: float("nan")),
    ("inf", lambda: float("inf")),
    ("control-chars", lambda: "".join(chr(i) for i in range(0, 32)) + "\x7f"),
    ("quotes-backslashes", lambda: "\"\\/\b\f\n\r\t '"),
    ("astral", lambda: "\U0001f600\U00010000\U0010ffff"),
    ("c1-controls-separators", lambda: "".join(chr(i) for i in range(0x7F, 0xA1)) + "\u2028\u2029\ufeff\u200b\u00ad"),
    ("every-bmp-block", lambda: "".join(chr(i) for i in range(0x20, 0xD800, 0x61)) + "".join(chr(i) for i in range(0xE000, 0xFFFE, 0x3D))),
    ("bmp-edge", lambda: "퟿￾￿  "),
    ("empty-str", lambda: ""),
    ("true", lambda: True),
    ("false", lambda: False),
    ("none", lambda: None),
    ("empty-list", lambda: []),
    ("empty-dict", lambda: {}),
    ("unicode-key", lambda: {"ké\n\"y": 1, "": 2}),
    ("mixed", lambda: [1, "a", None, True, 1.5, {"x": []}]),
    # sizes around the usual buffer thresholds (4 KiB, 8 KiB, 64 KiB, 1 MiB): still one write per line
    ("text-4k", lambda: "a" * 4096),
    ("text-8k", lambda: "é" * 8192),
    ("text-64k", lambda: "z" * 65536),
    ("text-1M", lambda: "\U0001f600" * (1 << 18)),
    ("list-70k", lambda: list(range(12000))),
]
RICH = [
    ("path", lambda: Path("/var/log/é.log"), lambda: "/var/log/é.log"),
    ("date", lambda: date(2024, 2, 29), lambda: "2024-02-29"),
    ("time", lambda: dtime(23, 59, 59, 999999), lambda: "23:59:59.999999"),
    ("set", lambda: {7}, lambda: [7]),
    ("set-mixed", lambda: {"a", 1}, lambda: ["a", 1]),
    ("set-none", lambda: {None, 5}, lambda: [None, 5]),
    ("set-empty", lambda: set(), lambda: []),
    ("complex", lambda: complex(1.5, -2.0), lambda: {"real": 1.5, "imag": -2.0}),
]


class AnyOrder(list):
    """Expected encoding of a set: the elements in any order."""


def _same(a, b):
    if isinstance(a, AnyOrder) or isinstance(b, AnyOrder):
        return isinstance(a, list) and isinstance(b, list) and len(a) == len(b) and all(any(_same(x, y) for y in b) for x in a)
    if type(a) is not type(b):
        return False
    if isinstance(a, float):
        return repr(a) == repr(b)
    if isinstance(a, list):
        return len(a) == len(b) and all(_same(x, y) for x, y in zip(a, b))
    if isinstance(a, dict):
        return set(a) == set(b) and all(_same(a[k], b[k]) for k in a)
    return a == b


def _expected_decoding(v):
    """JSON-native value -> what the documented encoding decodes to (NaN/inf -> null)."""
    if isinstance(v, float) and (math.isnan(v) or math.isinf(v)):
        return None
    if isinstance(v, list):
        return [_expected_decoding(x) for x in v]
    if isinstance(v, dict):
        return {k: _expected_decoding(x) for k, x in v.items()}
    return v


def body_E1(ctx):
    sh = ctx.shard
    which = ctx.choose(len(CORNERS) + len(RICH) + 1, "value class")
    depth = [0, 1, 3, sh.get("deep", 50), 250, 300][ctx.choose(6, "nesting")]
    as_dict = ctx.flag("nest in dicts")
    custom = False
    if which < len(CORNERS):
        name, mk = CORNERS[which]
        v = mk()
        expected = _expected_decoding(v)
    elif which < len(CORNERS) + len(RICH):
        name, mk, exp = RICH[which - len(CORNERS)]
        v = mk()
        expected = exp()
        if name.startswith("set"):
            expected = AnyOrder(expected)
    else:
        name = "custom-json_default"

        class Mine(object):
            pass

        v = Mine()
        expected = {"mine": True}
        custom = True
    value = _nest(v, depth, as_dict)
    expected = _nest(expected, depth, as_dict)
    message = {"task_uuid": "u-1", "task_level": [1, 2], "timestamp": 1234.5, "message_type": "c10:m", "value": value}
    exp_message = dict(message, value=expected)
    calls = []

    def my_default(o):
        calls.append(o)
        if custom and type(o).__name__ == "Mine":
            return {"mine": True}
        return json_default(o)

    b = _RecBytes()
    t = _RecText()
    how = ctx.choose(5, "how the destination is made")
    if how == 4:
        # a real text-mode file object (io.TextIOWrapper, as open(path, "w", encoding=...) returns)
        # with an encoding other than UTF-8; it has a .buffer, which is none of the destination's business
        t = None
        raw_t = io.BytesIO()
        tw = _RecWrapper(raw_t)
    if how == 3:
        import codecs

        t = None
        raw_t = io.BytesIO()
        tw = codecs.getwriter("utf-8")(raw_t)  # text-only file object whose .mode is that of the binary stream
    if how == 0:
        db = FileDestination(file=b, json_default=my_default)
        dt = FileDestination(file=t, json_default=my_default)
    elif how == 1:
        # deprecated: a JSONEncoder subclass
        class Enc(json.JSONEncoder):
            def default(self, o):
                return my_default(o)

        db = FileDestination(file=b, encoder=Enc)
        dt = FileDestination(file=t, encoder=Enc)
    elif how in (3, 4):
        db = FileDestination(file=b, json_default=my_default)
        dt = FileDestination(file=tw, json_default=my_default)
    else:
        from eliot import to_file

        to_file(b, json_default=my_default)
        to_file(t, json_default=my_default)
        db, dt = Logger._destinations._destinations[-2:]
    try:
        db(message)
        dt(message)
    except TypeError as e:
        if depth >= 254 and "Recursion limit" in str(e):
            ctx.fail("a message nested %d levels deep is not written at all: %s" % (depth, e), sig="C10:nesting-beyond-orjson-limit")
        raise
    raw = b.getvalue()
    # the one-write-per-line discipline, for payloads of every size
    for fobj, label in ((b, "binary"), (t if how != 4 else tw, "text")):
        if fobj is None:
            continue
        io_calls = [c for c in fobj.calls if c != ("write", 0)]  # the mode probe writes nothing
        ctx.check([c[0] for c in io_calls] == ["write", "flush"], "the %s file saw the calls %r for one message (%s, %d bytes): a reader can observe a partial line", label, [c[0] for c in io_calls], name, len(raw))
    if ctx.shard.get("reoffer", 1):
        # offer the very same dict object again after changing it in place
        message["value2"] = "changed"
        db(message)
        again = b.getvalue()[len(raw):]
        ctx.check(again.endswith(b"\n") and json.loads(again.decode("utf-8")).get("value2") == "changed", "re-offering the changed dict wrote %r", again[:120])
        del message["value2"]
    ctx.check(raw.endswith(b"\n") and raw.count(b"\n") == 1, "binary file content %r is not exactly one newline-terminated line (%s)", raw[:120], name)
    try:
        line = raw[:-1].decode("utf-8")
    except UnicodeDecodeError as e:
        ctx.fail("line is not valid UTF-8 for %s: %r" % (name, e))
    try:
        decoded = json.loads(line)
    except Exception as e:
        ctx.fail("line is not valid JSON for %s: %r" % (name, e))
    ctx.check(isinstance(decoded, dict), "line does not decode to an object")
    ctx.check(_same(decoded, exp_message), "decoded line differs from the logged message for %s depth %d: %r", name, depth, decoded if depth < 4 else "...")
    if how == 4:
        try:
            text_content = raw_t.getvalue().decode("utf-16-le")
        except UnicodeDecodeError as e:
            ctx.fail("the bytes behind the UTF-16 text file are not UTF-16: %r (%s)" % (raw_t.getvalue()[:60], e))
    else:
        text_content = t.getvalue() if t is not None else raw_t.getvalue().decode("utf-8")
    ctx.check(text_content == raw.decode("utf-8"), "text-mode and binary-mode files differ for %s (text file received %r)", name, text_content[:80])
    if custom or name in ("path", "set", "set-mixed", "set-none", "set-empty", "complex"):
        ctx.check(len(calls) >= 1, "json_default was not consulted for %s", name)
    elif which < len(CORNERS):
        ctx.check(calls == [], "json_default was consulted for the JSON-native value %s: %r", name, calls)
    ctx.nontrivial((name, depth, as_dict))
    if depth >= 3 and which >= len(CORNERS):
        ctx.reached("rich-nested")
    ctx.sample({"class": name, "nesting": depth, "in_dicts": as_dict, "line_bytes": len(raw)})


def E1() -> bool:
    """
    post: _
    """
    return run(body_E1, "X", {})


OBLIGATIONS = [
    Ob(
        "L1",
        L1,
        body_L1,
        "S",
        desc="file protocol for every codec output: one write(payload+newline) then one flush; same message object and json_default reach the codec; text mode gets the decoded payload",
        functions=["FileDestination.__new__", "FileDestination.__call__", "eliot.json._dumps_unicode"],
        shards={"quick": [{"text": t, "custom_default": c} for t in (0, 1) for c in (0, 1)] + [{"text": 1, "custom_default": 0, "mode_attr": "wb"}, {"text": 1, "custom_default": 0, "mode_attr": "w"}, {"text": 0, "custom_default": 0, "mode_attr": "wb"}, {"text": 0, "custom_default": 0, "mode_attr": "rb+"}]},
        twin=[{"text": 1, "custom_default": 0}],
        timeout={"quick": 200, "thorough": 400},
        path_timeout=60,
        bounds={"quick": "codec output: any ASCII bytes without newline, length <= 6; binary and text recording files, with and without a mode attribute (incl. a text-only file reporting mode \"wb\", as codecs writers do); default and custom json_default"},
        assumptions=["stub: eliot._output._dumps_bytes / eliot.json._dumps_bytes return an arbitrary payload (ASCII, no newline) and record their arguments"],
    ),
    Ob(
        "E1",
        E1,
        body_E1,
        "X",
        desc="real orjson + json.loads on corner classes: one valid UTF-8 JSON object line, decodes to the logged message (NaN/inf -> null), binary == text",
        functions=["FileDestination.__call__", "eliot.json._dumps_bytes (orjson)", "eliot.json._dumps_unicode", "json_default"],
        shards={"quick": [{"deep": 50}], "thorough": [{"deep": 50}, {"deep": 200}]},
        twin=[{"deep": 50, "twin_label": "rich-nested"}],
        timeout={"quick": 100, "thorough": 300},
        bounds={"quick": "29 JSON-native corner classes (incl. texts of 4 KiB, 8 KiB, 64 KiB, 1 MiB and a 70 KB list) + 8 rich values (path, date, time, 4 sets, complex) + custom json_default, nesting depth {0,1,3,50,250,300} in lists or dicts, binary and text files, made by FileDestination(json_default=) / FileDestination(encoder=) / to_file() / over a codecs.getwriter text stream / over a real UTF-16 io.TextIOWrapper - witnesses per class, not a for-all claim"},
    ),
]
