"""C18 - log_call is transparent: same result, same exceptions, faithful argument log."""

import inspect
import json

from engine.core import run, enumerate_prefixes
from engine.ob import Ob

from eliot import _output, log_call, current_action
from eliot._output import Logger

PROPERTY = "C18"
NONTRIVIAL_RULE = (
    "E1 leaves are (signature template, parameter names, call shape, decorator option, body outcome) from the decision "
    "vector; non-trivial when a parameter name collides with an eliot keyword or the call shape is invalid / uses "
    "positional-only or variadic binding; L1 leaves keyed by function."
)
EXPLANATION = (
    "A family of signatures (every parameter kind, defaults, methods) with solver-chosen parameter names - including "
    "logger, action_type, _serializers, self, args, kwargs - is decorated with log_call and called with solver-chosen "
    "valid and invalid argument lists under four decorator options; the outcome (returned value, raised exception "
    "object, TypeError for invalid lists) must equal the undecorated function's, and exactly one action with the "
    "arguments as Python binds them must be logged. L1 proves result/argument pass-through for all ints."
)
ASSUMPTIONS = [
    "log fidelity is not demanded for parameters named like reserved message keys (task_uuid, task_level, timestamp, action_status, action_type): one dict key cannot hold both; behavioural transparency is still checked",
]

RESERVED = ("task_uuid", "task_level", "timestamp", "action_status", "action_type")
NAMES = ["x", "y", "logger", "action_type", "_serializers", "message_type", "args", "kwargs", "self", "result", "task_uuid", "cls", "include_args", "wrapped_function"]

TEMPLATES = [
    ("plain2", "def f({a}, {b}):", 2),
    ("default", "def f({a}, {b}=5):", 2),
    ("posonly", "def f({a}, /, {b}):", 2),
    ("posonly-varkw", "def f({a}, /, **{b}):", 2),
    ("varpos", "def f({a}, *{b}):", 2),
    ("kwonly", "def f({a}, *, {b}):", 2),
    ("kwonly-default", "def f({a}, *, {b}=7):", 2),
    ("var-both", "def f(*{a}, **{b}):", 2),
    ("all-kinds", "def f({a}, /, {b}, *, {c}=9):", 3),
    ("method", "class C(object):\n    def f(self, {a}, {b}=3):", 2),
]


class Boom(Exception):
    pass


def build(template, names, option, raising):
    """-> (undecorated callable, decorated callable, signature-bearing function, is_method)"""
    tname, header, n = template
    slots = dict(zip("abc", names))
    src_header = header.format(**slots)
    is_method = tname == "method"
    indent = "        " if is_method else "    "
    body = indent + "'''doc of f'''\n" + indent + "if RAISE[0] is not None:\n" + indent + "    raise RAISE[0]\n" + indent + "return ('got', sorted(locals().items(), key=repr) if False else dict((k, v) for k, v in locals().items() if k != 'self' or not IS_METHOD))\n"
    ns = {"RAISE": raising, "IS_METHOD": is_method}
    exec(src_header + "\n" + body, ns)
    if is_method:
        plain = ns["C"].f
    else:
        plain = ns["f"]
    if STACKED[0] and not is_method:
        # log_call stacked on another decorator built with functools.wraps that supplies the first
        # argument itself: the function being decorated really takes (*args, **kwargs), while its
        # __wrapped__ attribute advertises the inner function's signature
        plain = _supplies_first_argument(plain)
    if option == 0:
        deco = log_call(plain)
    elif option == 1:
        deco = log_call(action_type="custom:type")(plain)
    elif option == 2:
        deco = log_call(include_args=[names[0]])(plain)
    elif option == 3:
        # a configured decorator object is an ordinary value: it may be kept and applied to
        # several functions, each of which is then logged under its own name
        quiet = log_call(include_result=False)
        quiet(_earlier_function)
        deco = quiet(plain)
    else:
        none = log_call(include_args=[])  # "log none of the arguments"
        none(_earlier_function)
        deco = none(plain)
    return plain, deco, is_method, src_header


STACKED = [False]


def _supplies_first_argument(f):
    import functools

    @functools.wraps(f)
    def inner(*args, **kwargs):
        return f("supplied", *args, **kwargs)

    return inner


def _earlier_function(*args, **kwargs):
    """Decorated before the function under test by the same configured decorator object."""
    return None


def call_shapes(names):
    a, b = names[0], names[1]
    return [
        ("f(1, 2)", (1, 2), {}),
        ("f(1)", (1,), {}),
        ("f()", (), {}),
        ("f(1, 2, 3)", (1, 2, 3), {}),
        ("f(a=1, b=2)", (), {a: 1, b: 2}),
        ("f(1, b=2)", (1,), {b: 2}),
        ("f(1, a=9)", (1,), {a: 9}),
        ("f(1, 2, zzz=3)", (1, 2), {"zzz": 3}),
        ("f(1, b=2, extra=4)", (1,), {b: 2, "extra": 4}),
        ("f(1, 2, c=3)", (1, 2), {names[2] if len(names) > 2 else "c": 3}),
    ]


def outcome(fn):
    try:
        return ("returned", fn())
    except TypeError as e:
        return ("TypeError", None)
    except Boom as e:
        return ("raised", e)


def body_E1(ctx):
    sh = ctx.shard
    received = []
    Logger._destinations.add(received.append)
    STACKED[0] = bool(sh.get("stacked"))
    template = TEMPLATES[ctx.choose(len(TEMPLATES), "template")]
    n = template[2]
    pool = list(NAMES)
    names = []
    free_slot = sh.get("free_slot")  # quick tier: only this slot's name is free
    for i in range(n):
        cand = [p for p in pool if not (template[0] == "method" and p == "self")]
        if free_slot is not None and i != free_slot:
            cand = [p for p in cand if p in ("x", "y", "result")][:1]
        k = ctx.choose(len(cand), "name of slot %d" % i)
        names.append(cand[k])
        pool.remove(cand[k])
    option = ctx.choose(5, "decorator option")
    raises = ctx.flag("body raises")
    shapes = call_shapes(names)
    sname, args, kwargs = shapes[ctx.choose(len(shapes), "call shape")]
    the_exc = Boom("from the body")
    raising = [the_exc if raises else None]
    try:
        plain, deco, is_method, header = build(template, names, option, raising)
    except Exception as e:
        ctx.fail("decorating %s with names %r raised %r" % (template[0], names, e), sig=_sig(names, template, sname, kwargs))
    desc = "%s names=%r call %s option %d%s" % (header.replace("\n", " "), names, sname, option, " raising" if raises else "")
    if is_method:
        obj = object.__new__(inspect.getmodule(build) and type("C", (), {}))
        args_p = (obj,) + args
    else:
        args_p = args
    desc0 = desc
    for attempt in ("first", "second"):  # the wrapper is built once and called many times
        desc = desc0 + " (%s call)" % attempt
        exp = outcome(lambda: plain(*args_p, **kwargs))
        before = current_action()
        n0 = len(received)
        try:
            got = outcome(lambda: deco(*args_p, **kwargs))
        except Exception as e:
            ctx.fail("decorated call raised %r where the plain function gives %r: %s" % (e, exp[0], desc), sig=_sig(names, template, sname, kwargs))
        ctx.check(current_action() is before, "log_call changed the current action: %s", desc)
        same = got[0] == exp[0] and (got[1] is exp[1] if got[0] == "raised" else got[1] == exp[1])
        ctx.check(same, "decorated call gave %r, the plain function %r: %s", got, exp, desc, sig=_sig(names, template, sname, kwargs))
        # metadata
        ctx.check(deco.__name__ == plain.__name__ and deco.__doc__ == plain.__doc__, "name/docstring not preserved: %s", desc)
        ctx.check(str(inspect.signature(deco)) == str(inspect.signature(plain)), "signature %s became %s", inspect.signature(plain), inspect.signature(deco))
        window = received[n0:]
        if exp[0] == "TypeError":
            ctx.check(len(window) in (0, 2), "invalid call logged %d messages", len(window))
        else:
            ctx.check(len(window) == 2, "valid call logged %d messages instead of one action: %s", len(window), desc)
            st, en = window
            ctx.check(st.get("action_status") == "started" and en.get("action_status") == ("failed" if raises else "succeeded"), "statuses %r/%r: %s", st.get("action_status"), en.get("action_status"), desc)
            exp_type = "custom:type" if option == 1 else "%s.%s" % (plain.__module__, plain.__qualname__)
            if not (set(names) & {"action_type"}):
                ctx.check(st["action_type"] == exp_type, "action type %r, expected %r", st["action_type"], exp_type)
            bound = inspect.signature(plain, follow_wrapped=False).bind(*args_p, **kwargs)
            bound.apply_defaults()
            expected = dict(bound.arguments)
            expected.pop("self", None)
            if option == 2:
                expected = {k: v for k, v in expected.items() if k == names[0]}
            elif option == 4:
                expected = {}
            logged = {k: v for k, v in st.items() if k not in RESERVED}
            expected = {k: v for k, v in expected.items() if k not in RESERVED}
            ctx.check(logged == expected, "start message holds %r, Python binds %r: %s", logged, expected, desc, sig=_sig(names, template, sname, kwargs))
            if not raises:
                if option == 3:
                    ctx.check("result" not in en, "result logged despite include_result=False")
                else:
                    ctx.check(en.get("result") == exp[1], "logged result %r, returned %r", en.get("result"), exp[1])
    hostile = bool(set(names) & {"logger", "action_type", "_serializers", "self", "args", "kwargs", "message_type", "task_uuid", "result", "cls", "include_args", "wrapped_function"})
    if hostile or exp[0] == "TypeError" or template[0] in ("posonly", "posonly-varkw", "varpos", "var-both", "all-kinds"):
        ctx.nontrivial((json.dumps(sh, sort_keys=True), tuple(ctx.trace)))
    if hostile and exp[0] == "returned":
        ctx.reached("hostile-name-valid-call")
    ctx.sample({"signature": header.replace("\n", " "), "call": sname, "option": option, "raises": raises, "plain_outcome": exp[0]})


def _sig(names, template, sname, kwargs=None):
    """Known-finding signature: a positional-only parameter's name used as a keyword."""
    if "/" in template[1] and kwargs is not None and names[0] in kwargs:
        return "C18:positional-only-name-used-as-keyword"
    return None


def E1() -> bool:
    """
    post: _
    """
    return run(body_E1, "X", {})


# -- L1: all-int transparency (Mode S); functions decorated at import time ----------------
def _p1(a, b=3, *c, d, e=5, **k):
    return a * 2 + b


def _p2(a, /, b, *, c=9):
    return (a, b, c)


class _K(object):
    def m(self, a, b=1):
        return a - b

    @classmethod
    def cm(cls, a):
        return a + 1


_d1 = log_call(_p1)
_d1_nores = log_call(include_result=False)(_p1)
_d2 = log_call(action_type="c18:p2", include_args=["b"])(_p2)
_dm = log_call(_K.m)
_K.dm = _dm
_dcm = log_call(_K.__dict__["cm"].__func__)


def body_L1(ctx, x, y, z, w):
    received = []
    Logger._destinations.add(received.append)
    which = ctx.shard.get("fn", "p1")
    if which == "p1":
        r = _d1(x, y, z, d=w, q=x)
        ctx.check(r == _p1(x, y, z, d=w, q=x), "result differs")
        st, en = received
        ctx.check(st["a"] == x and st["b"] == y and st["c"] == (z,) and st["d"] == w and st["e"] == 5 and st["k"] == {"q": x}, "logged arguments %r", st)
        ctx.check(en["result"] == x * 2 + y, "logged result")
        ctx.check(st["action_type"] == "props.c18._p1", "default action type %r", st["action_type"])
        r2 = _d1_nores(x, d=w)
        ctx.check(r2 == x * 2 + 3, "include_result=False changed the returned value to %r", r2)
        ctx.check("result" not in received[3] and received[2]["b"] == 3, "include_result=False / default logging wrong")
    elif which == "p2":
        r = _d2(x, y, c=z)
        ctx.check(r == (x, y, z), "result differs")
        st, en = received
        ctx.check(st["b"] == y and "a" not in st and "c" not in st, "include_args not respected: %r", st)
        ctx.check(st["action_type"] == "c18:p2", "explicit action type lost")
    else:
        k = _K()
        r = k.dm(x, b=y)
        ctx.check(r == x - y, "method result differs")
        st, en = received
        ctx.check("self" not in st and st["a"] == x and st["b"] == y, "method arguments logged as %r", st)
    ctx.check(_d1.__name__ == "_p1" and str(inspect.signature(_d1)) == str(inspect.signature(_p1)), "metadata not preserved")
    ctx.nontrivial(which)
    ctx.sample({"function": which, "arguments": "symbolic ints"})
    ctx.reached()


def L1(x: int, y: int, z: int, w: int) -> bool:
    """
    post: _
    """
    return run(body_L1, "S", dict(x=x, y=y, z=z, w=w))


def _shards(tier):
    out = []
    cfgs = [{"free_slot": 0}, {"free_slot": 1}, {"free_slot": 5, "stacked": 1}] if tier == "quick" else [{}, {"free_slot": 0, "stacked": 1}]
    for base in cfgs:
        out += [dict(base, prefix=p) for p in enumerate_prefixes(body_E1, "X", {}, base, 2 if tier == "quick" else 3)]
    return out


OBLIGATIONS = [
    Ob(
        "L1",
        L1,
        body_L1,
        "S",
        desc="result, bound arguments (defaults, *args, **kwargs, keyword-only, positional-only, methods), include_args/include_result, metadata - for all int arguments",
        functions=["log_call", "logging_wrapper", "start_action", "Action.add_success_fields"],
        shards={"quick": [{"fn": f} for f in ("p1", "p2", "method")]},
        twin=[{"fn": "p1"}],
        timeout={"quick": 200, "thorough": 400},
        path_timeout=90,
        bounds={"quick": "three decorated functions covering every parameter kind; all arguments arbitrary ints"},
    ),
    Ob(
        "E1",
        E1,
        body_E1,
        "X",
        desc="10 signature templates x parameter names from an 11-name menu (incl. eliot's own keywords) x 10 call shapes x 5 decorator options x body returns/raises: same outcome as the plain function, one faithful action",
        functions=["log_call", "logging_wrapper", "inspect binding used by log_call", "boltons.funcutils.wraps"],
        shards=_shards,
        twin=[{"twin_label": "hostile-name-valid-call"}],
        timeout={"quick": 100, "thorough": 1500},
        bounds={"quick": "all 10 templates x (one slot's name free over the 11-name menu, the others plain) x 10 call shapes x 5 options x 2 body outcomes", "thorough": "all ordered name choices for all 2-3 slots"},
    ),
]
