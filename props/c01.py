"""C01 - emitted logs parse back to exactly the action tree the program executed."""

import io
import json

from engine.core import run, enumerate_prefixes
from engine.ob import Ob
from engine import interp as I

from eliot import _output
from eliot.parse import Parser

PROPERTY = "C01"
NONTRIVIAL_RULE = (
    "E1/E2 leaves are whole programs (decision vectors); a leaf is non-trivial when the program has >= 2 "
    "actions, or a failed action, or a hand-off; keyed by (shard profile, decision vector). L1 leaves are "
    "keyed by decision vector (values symbolic)."
)
EXPLANATION = (
    "Programs over eliot's public API are enumerated by solver-drawn decisions and executed for real "
    "(FileDestination + orjson + json.loads + Parser); the parsed forest is compared node by node with a "
    "reference forest recorded by the interpreter. L1 additionally proves value pass-through for every int "
    "and short string with the values kept symbolic through Logger.write/Destinations.send/Parser."
)
ASSUMPTIONS = [
    "orjson/json.loads are a faithful codec pair on JSON-native values (C10's codec clause)",
    "uuid4() results are pairwise distinct (stub: per-path counter; the real_uuid shards leave the task-id source of the code under test alone, while the program re-seeds the global PRNG before every operation); time.time() returns a float (stub: counter)",
]


class RoutingFile(object):
    """A binary 'file' that appends to the current side's byte buffer."""

    def __init__(self, interp_ref, text=False):
        self.interp_ref = interp_ref
        self.sides = {}
        self.order = []  # (side, line) in emission order
        self.text = text  # a text-mode file: takes str only (the bytes are its UTF-8 encoding)

    def write(self, data):
        if self.text:
            if not isinstance(data, str):
                raise TypeError("write() argument must be str, not %s" % type(data).__name__)
            data = data.encode("utf-8")
        if isinstance(data, str):
            raise TypeError("binary file")
        if isinstance(data, (bytearray, memoryview)):
            data = bytes(data)  # real binary files take any bytes-like object and copy it at once
        side = self.interp_ref[0].side if self.interp_ref[0] is not None else 0
        if not data:
            return  # FileDestination's mode probe
        self.sides.setdefault(side, []).append(data)
        self.order.append((side, data))

    def writelines(self, lines):
        # io.IOBase.writelines: one write() call per item, nothing atomic about it
        for line in lines:
            self.write(line)

    def flush(self):
        pass


def parse_sides(ctx, rf):
    """Decode every side's file into dicts (one JSON object per line)."""
    out = {}
    for side, chunks in rf.sides.items():
        blob = b"".join(chunks)
        lines = blob.split(b"\n")
        ctx.check(lines[-1] == b"", "file of side %d does not end with a newline", side)
        msgs = []
        for ln in lines[:-1]:
            try:
                d = json.loads(ln.decode("utf-8"))
            except Exception as e:
                ctx.fail("line is not JSON: %r (%s)" % (ln[:200], e))
            ctx.check(isinstance(d, dict), "line is not a JSON object: %r", ln[:200])
            msgs.append(d)
        out[side] = msgs
    return out


def check_forest(ctx, it, messages, emission_order=None):
    """The C01 oracle: parse ``messages`` and compare with the reference forest.
    ``emission_order`` (default: ``messages``) gives the order trees were started in."""
    try:
        tasks = list(Parser.parse_stream(messages))
    except Exception as e:
        ctx.fail("parser raised %r on the emitted messages of program %s" % (e, it.render()))
    first_seen = []
    for m in emission_order if emission_order is not None else messages:
        if m["task_uuid"] not in first_seen:
            first_seen.append(m["task_uuid"])
    ctx.check(len(tasks) == len(it.forest), "parser produced %d tasks, program made %d trees (program %s)", len(tasks), len(it.forest), it.render())
    by_uuid = {}
    for t in tasks:
        root = t.root()
        ctx.check(root.task_uuid not in by_uuid, "task %s yielded twice", root.task_uuid)
        by_uuid[root.task_uuid] = t
    ctx.check(set(by_uuid) == set(first_seen), "task uuids differ")
    for ref, uuid in zip(it.forest, first_seen):
        t = by_uuid[uuid]
        d = I.compare_node(ref, t.root(), "task%d" % (first_seen.index(uuid) + 1))
        ctx.check(d is None, "%s (program %s; reference %s)", d, it.render(), it.render_forest())
        ctx.check(t.is_complete(), "task of %s is not reported complete (program %s)", ref.render(), it.render())
    n_expected = sum(I.count_nodes(r) for r in it.forest)
    ctx.check(len(messages) == n_expected, "%d messages emitted, program performed %d loggable events (program %s)", len(messages), n_expected, it.render())


def body_E1(ctx):
    sh = ctx.shard
    ref = [None]
    rf = RoutingFile(ref, text=bool(sh.get("text_file")))
    _output.Logger._destinations.add(_output.FileDestination(file=rf))
    it = I.Interp(ctx, sh.get("N", 4), sh.get("D", 3), allow_handoff=bool(sh.get("handoff")))
    ref[0] = it
    it.run()
    sides = parse_sides(ctx, rf)
    merged = []
    for side in sorted(sides, reverse=bool(sh.get("reverse_sides"))):
        merged.extend(sides[side])
    # emission order, whatever the granularity of the destination's write() calls
    emitted = [json.loads(ln.decode("utf-8")) for ln in b"".join(data for _, data in rf.order).split(b"\n") if ln]
    check_forest(ctx, it, merged, emitted)
    if it.n_actions >= 2 or it.n_failed or it.n_handoffs:
        ctx.nontrivial((json.dumps(sh, sort_keys=True), tuple(ctx.trace)))
        ctx.reached("nested")
    if it.n_failed and it.n_actions >= 2:
        ctx.reached("failed-nested")
    ctx.sample({"program": it.render(), "reference": it.render_forest(), "messages": len(merged)})


def E1() -> bool:
    """
    post: _
    """
    return run(body_E1, "X", {})


# -- E2: threads sharing one file destination -------------------------------------------------
def body_E2(ctx):
    """C05 E1's thread programs (own tasks, or continuing main's task through preserve_context),
    all logging to ONE FileDestination whose file lets the scheduler switch threads after every
    write(): each line of the file decodes, and the parsed forest equals the schedule-independent
    expectation (checked inside c05.body_E1), with every task complete."""
    from props import c05

    received, sched = c05.body_E1(ctx)
    try:
        tasks = list(Parser.parse_stream(received))
    except Exception as e:
        ctx.fail("parser raised %r on the file written by the threads (%s)" % (e, sched.render()))
    ctx.check(all(t.is_complete() for t in tasks), "a task read back from the shared file is incomplete (%s)", sched.render())
    ctx.reached("threads-file")


def E2() -> bool:
    """
    post: _
    """
    return run(body_E2, "X", {})


def _e2_shards(tier):
    base = {"file_dest": 1, "workers": 2, "P": 1 if tier == "quick" else 2, "preserve": 1, "handover": 0}
    return [dict(base, prefix=p) for p in enumerate_prefixes(body_E2, "X", {}, base, 4 if tier == "quick" else 6)]


# -- L1: value pass-through with symbolic values (Mode S) -------------------------
def body_L1(ctx, v, t):
    ctx.assume(len(t) <= 4)
    received = []
    _output.Logger._destinations.add(received.append)

    class VI(I.Interp):
        check_context = False

        def value(self_):
            self_.n += 1
            return v if self_.n % 2 else t

    it = VI(ctx, 3, 2, allow_raise=False)
    it.run()
    try:
        tasks = list(Parser.parse_stream(received))
    except Exception as e:
        ctx.fail("parser raised %r" % (e,))
    # every reference node's values must arrive unchanged
    flat = []

    def walk(refnode, written):
        if refnode.kind == "message":
            flat.append((refnode.fields["x"], written.contents["x"]))
            return
        flat.append((refnode.start_fields["x"], written.start_message.contents["x"]))
        for k, ev in refnode.end_fields.items():
            flat.append((ev, written.end_message.contents[k]))
        kids = list(written.children)
        ctx.check(len(kids) == len(refnode.children), "child count")
        for rc, wc in zip(refnode.children, kids):
            walk(rc, wc)

    ctx.check(len(tasks) == len(it.forest), "task count")
    uu = []
    for m in received:
        if m["task_uuid"] not in uu:
            uu.append(m["task_uuid"])
    by = {tk.root().task_uuid: tk for tk in tasks}
    for refnode, u in zip(it.forest, uu):
        walk(refnode, by[u].root())
    for exp, got in flat:
        ctx.check(type(got) is type(exp) and got == exp, "a logged value arrived as %r instead of %r (program %s)", got, exp, it.render())
    ctx.nontrivial(tuple(ctx.trace))
    if flat:
        ctx.reached("values")
    ctx.sample({"program": it.render(), "values": "v: symbolic int, t: symbolic str len<=4", "compared": len(flat)})


def L1(v: int, t: str) -> bool:
    """
    post: _
    """
    return run(body_L1, "S", dict(v=v, t=t))


def _profiles():
    out = [{}]
    out += [{"open": i} for i in range(1, I.N_OPEN)]
    out += [{"msg": i} for i in range(1, I.N_MSG)]
    out += [{"exc": i} for i in range(1, I.N_EXC)]
    out += [{"fin": i} for i in range(1, I.N_FIN)]
    return out


def _e1_shards(tier):
    N, D = (4, 3) if tier == "quick" else (6, 4)
    shards = []
    for p in _profiles():
        s = dict(p, N=N, D=D)
        if tier == "thorough":
            for pre in enumerate_prefixes(body_E1, "X", {}, s, 1):
                shards.append(dict(s, prefix=pre))
        else:
            shards.append(s)
    # hand-offs (own files per side, both merge orders)
    for rev in (0, 1):
        for idtext in (0, 1):
            shards.append({"N": N if tier == "quick" else 5, "D": D, "handoff": 1, "reverse_sides": rev, "idtext": idtext})
    # re-entering the current action's context()/run(); hand-offs whose work runs after the program's blocks ended
    for extra in ({"reenter": 1}, {"reenter": 1, "reenter_style": 1}, {"deferred": 1, "handoff": 1}, {"deferred": 1, "reverse_sides": 1}, {"empty_type": 1}, {"empty_type": 1, "open": 1}, {"names": 1}, {"explicit_logger": 1}, {"unentered": 1}, {"unentered": 1, "exc": 7, "ext": 1}, {"handoff": 1, "remote_type": 1}, {"handling": 1}, {"real_uuid": 1, "open": 5}, {"text_file": 1}, {"text_file": 1, "msg": 2}):
        base = dict(extra, N=N if tier == "quick" else 5, D=D)
        for pre in enumerate_prefixes(body_E1, "X", {}, base, 2):
            shards.append(dict(base, prefix=pre))
    # free styles, short programs
    base = {"free": 1, "N": 2 if tier == "quick" else 3, "D": 2}
    for pre in enumerate_prefixes(body_E1, "X", {}, base, 2 if tier == "quick" else 3):
        shards.append(dict(base, prefix=pre))
    return shards


OBLIGATIONS = [
    Ob(
        "E1",
        E1,
        body_E1,
        "X",
        desc="every program shape x style profile: FileDestination -> json.loads -> Parser equals the reference forest",
        functions=["start_action", "start_task", "Action.__enter__/__exit__/finish/context/run/log/add_success_fields", "Action.serialize_task_id", "Action.continue_task", "log_message", "Message.log", "MessageType.log", "ActionType.__call__", "log_call", "write_traceback", "Logger.write", "Destinations.send", "FileDestination.__call__", "Parser.parse_stream", "Task.add", "WrittenAction"],
        shards=_e1_shards,
        twin=[{"N": 4, "D": 3, "twin_label": "failed-nested"}],
        timeout={"quick": 100, "thorough": 900},
        bounds={
            "quick": "all op sequences (open/close/message/raise-caught-j-levels-out) of <= 4 ops, depth <= 3, under 22 style profiles (baseline + every single-dimension variation of open style(6)/message style(5)/exception class(10)/extra finish(3)); hand-offs with separate files, both merge orders, bytes/text ids; re-entry of the current action's context()/run(); deferred hand-offs (id made inside an action, work logged after it ended); actions with the default empty action type; unusual field names (non-ASCII, spaces, names eliot uses on other message kinds); a Logger passed positionally; a text-mode log file; actions started, used and finished without ever being entered; continue_task with a custom action type; every <= 2-op program with per-step free styles",
            "thorough": "<= 6 ops, depth <= 4 under the same 20 profiles; hand-offs <= 5 ops; free styles <= 3 ops",
        },
    ),
    Ob(
        "E2",
        E2,
        body_E2,
        "X",
        desc="two worker threads + main write their trees to one FileDestination; thread switches after every file.write(); the file parses back to the expected forest",
        functions=["FileDestination.__call__", "Destinations.send", "Logger.write", "preserve_context", "Action.continue_task", "Parser.parse_stream"],
        shards=_e2_shards,
        twin=[{"file_dest": 1, "workers": 2, "P": 1, "preserve": 1, "handover": 0, "twin_label": "threads-file"}],
        timeout={"quick": 100, "thorough": 1200},
        bounds={"quick": "main + 2 worker threads x 3 programs x {own task, preserve_context}, <= 1 preemption at eliot API entry points and after every file.write()", "thorough": "<= 2 preemptions"},
    ),
    Ob(
        "L1",
        L1,
        body_L1,
        "S",
        desc="for every int v and str t (len <= 4) logged as field values in any program of <= 3 ops, the parsed nodes carry exactly v / t",
        functions=["Logger.write", "Destinations.send", "Action._start/finish/log", "Task.add", "WrittenMessage.contents"],
        timeout={"quick": 200, "thorough": 600},
        path_timeout=60,
        twin=[{"twin_label": "values"}],
        bounds={"quick": "programs of <= 3 ops, depth <= 2 (no raise); v any int, t any str of length <= 4; in-memory list destination (no codec)"},
    ),
]
