"""C13 - typed fields are serialized exactly once; serializer failures are contained."""

import copy
import json

from engine.core import run, enumerate_prefixes
from engine.ob import Ob

from eliot import _output, MessageType, ActionType, Field, start_action, current_action, add_global_fields
from eliot._output import Logger

PROPERTY = "C13"
NONTRIVIAL_RULE = (
    "L1 leaves are keyed by message kind; E1 leaves by (message kind, nesting, fault subset) from the decision vector, "
    "non-trivial when at least one serializer raised or a declared field was missing."
)
EXPLANATION = (
    "L1: with non-idempotent serializers (v -> 2v+1, s -> s+'!') z3 proves for every int and short string that "
    "destinations see the serializer applied exactly once, undeclared fields untouched and caller-owned dicts "
    "unmodified even with global fields registered, for stand-alone, start, success and failure messages. "
    "E1: every subset of raising serializers (SerBoom, StopIteration, KeyError, TypeError, or a BaseException that is no Exception) / missing fields per message kind inside nested actions: the message "
    "is withheld, exactly one traceback and one serialization_failure are logged in the current context, the call returns."
)
ASSUMPTIONS = ["serializers are pure functions of their argument apart from the injected faults"]


class SerBaseBoom(BaseException):
    """A serializer failure that is no `Exception` (Logger.write catches with a bare except)."""


class SerBoom(Exception):
    pass


# -- L1 -----------------------------------------------------------------------------
def _twice_plus_one(v):
    return 2 * v + 1


def _bang(s):
    return s + "!"


L_MSG = MessageType("c13:msg", [Field("n", _twice_plus_one, ""), Field("s", _bang, "")], "")
L_ACT = ActionType("c13:act", [Field("n", _twice_plus_one, ""), Field("s", _bang, "")], [Field("n", _twice_plus_one, ""), Field("s", _bang, "")], "")


def body_L1(ctx, v, s, w):
    ctx.assume(len(s) <= 4)
    kind = ctx.shard.get("kind", "message")
    received = []
    Logger._destinations.add(received.append)
    add_global_fields(g=7)
    nested = {"k": [1, 2]}
    if kind == "message":
        L_MSG.log(n=v, s=s, extra=w, obj=nested)
        ctx.check(len(received) == 1, "delivered %d messages", len(received))
        m = received[0]
        ctx.check(m["n"] == 2 * v + 1, "declared int field arrived as %r for value %r", m["n"], v)
        ctx.check(m["s"] == s + "!", "declared str field arrived as %r", m["s"])
        ctx.check(m["extra"] == w and m["obj"] == {"k": [1, 2]} and m["g"] == 7, "undeclared/global fields wrong: %r", m)
        ctx.check(m["message_type"] == "c13:msg", "message_type %r", m["message_type"])
    elif kind == "write":
        d = {"message_type": "c13:msg", "n": v, "s": s, "extra": w, "obj": nested, "task_uuid": "u", "task_level": [1], "timestamp": 1.0}
        snapshot = dict(d)
        Logger().write(d, L_MSG._serializer)
        ctx.check(len(received) == 1, "delivered %d messages", len(received))
        ctx.check(received[0]["n"] == 2 * v + 1 and received[0]["s"] == s + "!", "serialized copy wrong")
        ctx.check(set(d) == set(snapshot), "the caller's dict gained/lost keys: %r", sorted(d))
        ctx.check(d["n"] == v and d["s"] == s and d["extra"] == w and d["obj"] is nested, "the caller's dict was modified")
        # and without a serializer
        d2 = {"message_type": "x", "n": v, "obj": nested, "task_uuid": "u", "task_level": [2], "timestamp": 1.0}
        keys2 = set(d2)
        Logger().write(d2, None)
        ctx.check(set(d2) == keys2, "write(dict, None) added %r to the caller's dict", sorted(set(d2) - keys2))
        ctx.check(received[1]["n"] == v and received[1]["g"] == 7, "unserialized copy wrong")
    elif kind in ("success", "failure"):
        err = ValueError("boom")
        try:
            with L_ACT(n=v, s=s) as a:
                a.add_success_fields(n=w, s=s)
                if kind == "failure":
                    raise err
        except ValueError as e:
            ctx.check(e is err, "exception identity")
        ctx.check(len(received) == 2, "delivered %d messages", len(received))
        st, en = received
        ctx.check(st["n"] == 2 * v + 1 and st["s"] == s + "!" and st["action_status"] == "started" and st["g"] == 7, "start message wrong")
        if kind == "success":
            ctx.check(en["n"] == 2 * w + 1 and en["s"] == s + "!" and en["action_status"] == "succeeded", "success message wrong: n=%r", en.get("n"))
        else:
            ctx.check(en["action_status"] == "failed" and en["reason"] == "boom" and en["exception"] == "builtins.ValueError" and "n" not in en, "failure message wrong")
    ctx.check(nested == {"k": [1, 2]}, "a caller-owned object was modified")
    ctx.nontrivial(kind)
    ctx.sample({"kind": kind, "v,w": "symbolic ints", "s": "symbolic str len<=4"})
    ctx.reached()


def L1(v: int, s: str, w: int) -> bool:
    """
    post: _
    """
    return run(body_L1, "S", dict(v=v, s=s, w=w))


# -- E1 ------------------------------------------------------------------------------
def body_E1(ctx):
    sh = ctx.shard
    received = []
    Logger._destinations.add(received.append)
    calls = {}
    raising = set()
    nfields = sh.get("fields", 2)
    names = ["f%d" % i for i in range(nfields)]

    def mk(name):
        def ser(v):
            calls[name] = calls.get(name, 0) + 1
            if name in raising:
                raise [SerBoom, StopIteration, KeyError, TypeError, SerBaseBoom][int(sh.get("ser_exc", 0))](name)
            return ["ser", v]

        return ser

    # the last declared field is an identity field made by Field.for_types (no custom serializer)
    identity = set(names[-1:]) if sh.get("identity_field", 1) else set()
    fields = [Field.for_types(n, [int, list], "") if n in identity else Field(n, mk(n), "") for n in names]
    MT = MessageType("c13:m", list(fields), "")
    AT = ActionType("c13:a", list(fields), list(fields), "")
    kind = ["message", "start", "success"][ctx.choose(3, "message kind")]
    depth = ctx.choose(sh.get("depth", 2) + 1, "nesting depth")
    # fault subset: per declared field one of ok / raises / missing
    status = {}
    for n in names:
        status[n] = (["ok", "missing"] if n in identity else ["ok", "raises", "missing"])[ctx.choose(2 if n in identity else 3, "fault " + n)]
    raising.update(n for n in names if status[n] == "raises")
    bad = any(v != "ok" for v in status.values())
    # logged values: distinct ints, or (shard "falsy") values a careless presence test confuses with "absent"
    menu = [None, 0, [], "", False] if sh.get("falsy") else None
    allvalues = {n: (menu[(i + int(sh["falsy"]) - 1) % len(menu)] if menu else i + 10) for i, n in enumerate(names)}
    values = {n: v for n, v in allvalues.items() if status[n] != "missing"}

    outer = []
    for d in range(depth):
        a = start_action(action_type="c13:outer%d" % d)
        a.__enter__()
        outer.append(a)
    n0 = len(received)
    expected_parent = current_action()
    affected = None
    try:
        if kind == "message":
            raising_now = True
            MT.log(extra=1, **values)
            window = received[n0:]
            calls_seen = dict(calls)
            ctx_action = expected_parent
        elif kind == "start":
            act = AT(extra=1, **values)
            window = received[n0:]
            calls_seen = dict(calls)
            ctx_action = expected_parent
            saved = set(raising)
            raising.clear()  # the success message of this action is not under test
            n1 = len(received)
            act.add_success_fields(**allvalues)
            act.finish()
            raising.update(saved)
        else:
            saved = set(raising)
            raising.clear()
            act = AT(extra=1, **allvalues)
            raising.update(saved)
            with act:
                act.add_success_fields(extra=1, **values)
                n0 = len(received)
                calls.clear()
            # __exit__ resets the context, then finish() logs: reports land in the enclosing context
            window = received[n0:]
            calls_seen = dict(calls)
            ctx_action = expected_parent
    except (Exception, SerBaseBoom) as e:
        ctx.fail("the logging call raised %r (kind %s, faults %r)" % (e, kind, status))
    finally:
        for a in reversed(outer):
            a.__exit__(None, None, None)

    typed = [m for m in window if m.get("message_type") == "c13:m" or m.get("action_type") == "c13:a"]
    tbs = [m for m in window if m.get("message_type") == "eliot:traceback"]
    sfs = [m for m in window if m.get("message_type") == "eliot:serialization_failure"]
    if not bad:
        ctx.check(len(typed) == 1 and not tbs and not sfs, "clean %s: window %r", kind, [(m.get("message_type") or m.get("action_status")) for m in window])
        m = typed[0]
        for n in names:
            if n in identity:
                ctx.check(m[n] == allvalues[n], "identity field %s delivered as %r", n, m[n])
                continue
            ctx.check(m[n] == ["ser", allvalues[n]], "field %s delivered as %r", n, m[n])
            ctx.check(calls_seen.get(n) == 1, "serializer of %s was called %r times for one delivered message", n, calls_seen.get(n))
        ctx.check(m["extra"] == 1, "undeclared field changed")
    else:
        ctx.check(len(typed) == 0, "a %s message with failing/missing fields %r was delivered anyway: %r", kind, status, typed)
        ctx.check(len(tbs) == 1 and len(sfs) == 1, "faults %r on %s produced %d traceback and %d serialization_failure messages", status, kind, len(tbs), len(sfs))
        ctx.check(len(window) == 2, "unexpected messages in the window: %r", [(m.get("message_type") or m.get("action_status")) for m in window])
        rendering = sfs[0].get("message", "")
        for n in values:
            ctx.check(repr(n) in rendering, "serialization_failure rendering %r does not name field %s", rendering, n)
        for m in (tbs[0], sfs[0]):
            if ctx_action is None:
                ctx.check(m["task_level"] == [1], "report without context placed at %r", m["task_level"])
            else:
                ctx.check(m["task_uuid"] == ctx_action.task_uuid and m["task_level"][:-1] == ctx_action._task_level.as_list(), "report placed at %r/%r, current action was %r/%r (kind %s)", m["task_uuid"], m["task_level"], ctx_action.task_uuid, ctx_action._task_level.as_list(), kind)
        ctx.nontrivial((json.dumps(sh, sort_keys=True), tuple(ctx.trace)))
        if depth >= 1:
            ctx.reached("fault-nested")
    ctx.sample({"kind": kind, "depth": depth, "faults": status, "window": [(m.get("message_type") or m.get("action_status")) for m in window]})


def E1() -> bool:
    """
    post: _
    """
    return run(body_E1, "X", {})


OBLIGATIONS = [
    Ob(
        "L1",
        L1,
        body_L1,
        "S",
        desc="exactly-once serialization, untouched extras, unmodified caller data (with global fields) for all ints / short strings",
        functions=["Logger.write", "_MessageSerializer.serialize", "Field.serialize", "MessageType.log", "ActionType.__call__", "Action._start", "Action.finish", "Destinations.send"],
        shards={"quick": [{"kind": k} for k in ("message", "write", "success", "failure")]},
        twin=[{"kind": "message"}],
        timeout={"quick": 150, "thorough": 400},
        path_timeout=60,
        bounds={"quick": "v, w any int; s any str of length <= 4; serializers v->2v+1 and s->s+'!'; one global field registered"},
    ),
    Ob(
        "E1",
        E1,
        body_E1,
        "X",
        desc="every subset of raising serializers / missing declared fields x {stand-alone, start, success} x nesting depth: message withheld, one traceback + one serialization_failure in the current context, call returns, serializers called once",
        functions=["Logger.write", "_MessageSerializer.serialize", "write_traceback", "log_message", "_safe_unicode_dictionary"],
        shards={"quick": [{"fields": 2, "depth": 2, "ser_exc": e} for e in (0, 1, 2, 3, 4)] + [{"fields": 2, "depth": 1, "falsy": k} for k in (1, 2, 3, 4, 5)], "thorough": [{"fields": 3, "depth": 3, "ser_exc": e} for e in (0, 1, 2, 3, 4)] + [{"fields": 3, "depth": 2, "falsy": k} for k in (1, 2, 3, 4, 5)]},
        twin=[{"fields": 2, "depth": 2, "twin_label": "fault-nested"}],
        timeout={"quick": 100, "thorough": 600},
        bounds={"quick": "2 declared fields (one custom serializer: ok/raising/missing; one Field.for_types identity field: ok/missing), 3 message kinds, nesting depth 0-2; failing serializers raise a custom exception, StopIteration, KeyError or TypeError; logged values distinct ints, or None / 0 / [] / empty text / False in every assignment to the fields (depth <= 1)", "thorough": "3 declared fields, depth 0-3"},
    ),
]
